#!/usr/bin/env python3
"""Verify a sub-agent's seeded change and run the checks against it.
  tools/seed_verify.py <worktree> <out-subdir> <seed-name> <prop> [more props...]
Steps: (1) in the scratch worktree: patch applies, builds (default + all features), the 36 tests
pass, the demo fails; unpatched the demo passes.  (2) in /repo: apply, run ./check <prop> for each
listed property, undo.  Writes /verif/seeded/<seed-name>/{patch.diff,demo.rs,notes.md,meta.json}."""
import subprocess, sys, os, json, shutil, re
def sh(cmd, cwd=None, env=None):
    e = dict(os.environ); e["CARGO_NET_OFFLINE"] = "true"
    if env: e.update(env)
    return subprocess.run(cmd, shell=True, cwd=cwd, env=e, stdout=subprocess.PIPE, stderr=subprocess.STDOUT, text=True)
wt, sub, name = sys.argv[1], sys.argv[2], sys.argv[3]
props = sys.argv[4:]
src = os.path.join(wt, "out", sub)
patch = os.path.join(src, "patch.diff")
demo = os.path.join(src, "demo.rs")
meta = dict(seed=name, breaks=props[0], checks_run=props, source="independent sub-agent working from the property text only", steps={})
def tests_ok(out):
    return out.count("test result: ok") >= 3 and "FAILED" not in out and "error[" not in out and "error:" not in out
try:
    sh("git checkout -- . && rm -f tests/demo_seed.rs", cwd=wt)
    r = sh("git apply --check %s && git apply %s" % (patch, patch), cwd=wt); meta["steps"]["patch_applies"] = r.returncode == 0
    b1 = sh("cargo build --offline 2>&1 | tail -2", cwd=wt); b2 = sh("cargo build --offline --all-features 2>&1 | tail -2", cwd=wt)
    meta["steps"]["builds"] = "error" not in b1.stdout and "error" not in b2.stdout
    t1 = sh("cargo test --offline 2>&1 | grep -E 'test result|error\[|error:'", cwd=wt); t2 = sh("cargo test --offline --all-features 2>&1 | grep -E 'test result|error\[|error:'", cwd=wt)
    meta["steps"]["existing_tests_pass_with_change"] = tests_ok(t1.stdout) and tests_ok(t2.stdout)
    shutil.copy(demo, os.path.join(wt, "tests", "demo_seed.rs"))
    feats = "--all-features"
    head = open(demo).read()[:600].lower()
    d1 = sh("cargo test --offline %s --test demo_seed 2>&1 | grep -E 'test result|error\\[|panicked' | head -5" % feats, cwd=wt)
    d1b = sh("cargo test --offline --test demo_seed 2>&1 | grep -E 'test result|error\\[' | head -5", cwd=wt)
    meta["steps"]["demo_fails_with_change"] = ("FAILED" in d1.stdout) or ("FAILED" in d1b.stdout) or ("panicked" in d1.stdout and "test result" not in d1.stdout)
    meta["steps"]["demo_output_with_change"] = (d1.stdout + d1b.stdout)[-500:]
    sh("git checkout -- src", cwd=wt)
    d2 = sh("cargo test --offline %s --test demo_seed 2>&1 | grep -E 'test result|error\\[' | head -5" % feats, cwd=wt)
    d2b = sh("cargo test --offline --test demo_seed 2>&1 | grep -E 'test result|error\\[' | head -5", cwd=wt)
    meta["steps"]["demo_passes_without_change"] = "FAILED" not in d2.stdout and "FAILED" not in d2b.stdout and "test result: ok" in d2.stdout
finally:
    sh("git checkout -- . ; rm -f tests/demo_seed.rs", cwd=wt)
# checks against /repo
res = {}
try:
    sh("git -C /repo checkout -- .")
    r = sh("git -C /repo apply %s" % patch)
    assert r.returncode == 0, r.stdout
    for p in props:
        r = sh("./check %s --tier quick" % p, cwd="/verif")
        lines = [l for l in r.stdout.splitlines() if l.startswith("VIOLATION") or l.startswith("INCONCLUSIVE") or l.startswith("  C") or l.startswith("  %s" % p)]
        res[p] = dict(exit=r.returncode, first_signatures=[l.strip()[:200] for l in r.stdout.splitlines() if l.startswith("  " + p + "|")][:4])
finally:
    sh("git -C /repo checkout -- .")
meta["check_results_quick"] = res
meta["caught_by"] = [p for p, v in res.items() if v["exit"] == 1]
dst = os.path.join("/verif/seeded", name)
os.makedirs(dst, exist_ok=True)
shutil.copy(patch, os.path.join(dst, "patch.diff")); shutil.copy(demo, os.path.join(dst, "demo.rs"))
if os.path.exists(os.path.join(src, "notes.md")): shutil.copy(os.path.join(src, "notes.md"), os.path.join(dst, "notes.md"))
json.dump(meta, open(os.path.join(dst, "meta.json"), "w"), indent=1)
print(name, json.dumps(meta["steps"], default=str)[:400]); print("   checks:", {p: v["exit"] for p, v in res.items()})
