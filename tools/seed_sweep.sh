#!/bin/sh
# silence on the unchanged tree at several VERIF_SEED values (quick tier, all stages)
./check --setup 2>&1 | tail -1
for seed in ${SEEDS:-2 3 5 11}; do
  for p in C01 C02 C03 C04 C05 C06 C07 C08 C09 C10 C11 C12 C13 C14 C15 C16 C17 C18 C19; do
    VERIF_SEED=$seed ./check $p --tier quick 2>&1 | grep -E 'quick seed|VIOLATION|INCONCLUSIVE|inconclusive|crash|transient' | cut -c1-240
  done
done
