#!/usr/bin/env python3
"""Mutation campaign (DESIGN.md §7.3): apply a textual mutant to /repo, confirm that it still
compiles and passes the repository's 36 tests, run the listed checks, undo.  Usage:
  tools/mutants.py [name-substring ...]     (no argument: all)
Never leaves /repo modified."""
import subprocess, sys, os, time, json
REPO = "/repo"
M = []
def m(name, path, old, new, props, count=1):
    M.append(dict(name=name, path=path, old=old, new=new, props=props, count=count))

# ---------------- C01
m("c01-swap-pin-protocol-ea", "src/ctap2/make_credential.rs",
  "    #[serde(skip_serializing_if = \"Option::is_none\")]\n    pub pin_protocol: Option<u32>,\n    #[serde(skip_serializing_if = \"Option::is_none\")]\n    pub enterprise_attestation: Option<u32>,",
  "    #[serde(skip_serializing_if = \"Option::is_none\")]\n    pub enterprise_attestation: Option<u32>,\n    #[serde(skip_serializing_if = \"Option::is_none\")]\n    pub pin_protocol: Option<u32>,", ["C01"])
m("c01-ga-options-required", "src/ctap2/get_assertion.rs",
  "    #[serde(skip_serializing_if = \"Option::is_none\")]\n    pub options: Option<AuthenticatorOptions>,\n    #[serde(skip_serializing_if = \"Option::is_none\")]\n    pub pin_auth: Option<&'a serde_bytes::Bytes>,\n    #[serde(skip_serializing_if = \"Option::is_none\")]\n    pub pin_protocol: Option<u32>,\n    #[serde(skip_serializing_if = \"Option::is_none\")]\n    pub enterprise_attestation",
  "    #[serde(skip_serializing_if = \"Option::is_none\")]\n    pub options: Option<AuthenticatorOptions>,\n    #[serde(skip_serializing_if = \"Option::is_none\")]\n    pub pin_auth: Option<&'a serde_bytes::Bytes>,\n    #[serde(skip_serializing_if = \"Option::is_none\")]\n    pub pin_protocol: Option<u8>,\n    #[serde(skip_serializing_if = \"Option::is_none\")]\n    pub enterprise_attestation", ["C01", "C12"])
m("c01-rename-displayname", "src/webauthn.rs", "#[serde(rename_all = \"camelCase\")]\npub struct PublicKeyCredentialUserEntity", "#[serde(rename_all = \"snake_case\")]\npub struct PublicKeyCredentialUserEntity", ["C01", "C02", "C13"])
m("c01-lb-offset-key", "src/ctap2/large_blobs.rs", "    // 0x03\n    pub offset: u32,\n    // 0x04\n    #[serde(skip_serializing_if = \"Option::is_none\")]\n    pub length: Option<u32>,", "    // 0x04\n    #[serde(skip_serializing_if = \"Option::is_none\")]\n    pub length: Option<u32>,\n    // 0x03\n    pub offset: u32,", ["C01", "C15"])
# ---------------- C02
m("c02-drop-skip-eppatt", "src/ctap2/make_credential.rs", "    #[serde(skip_serializing_if = \"Option::is_none\")]\n    pub ep_att: Option<bool>,\n    #[serde(skip_serializing_if = \"Option::is_none\")]\n    pub large_blob_key: Option<ByteArray<32>>,\n    #[serde(skip_serializing_if = \"Option::is_none\")]\n    pub unsigned_extension_outputs: Option<UnsignedExtensionOutputs>,\n}", "    pub ep_att: Option<bool>,\n    #[serde(skip_serializing_if = \"Option::is_none\")]\n    pub large_blob_key: Option<ByteArray<32>>,\n    #[serde(skip_serializing_if = \"Option::is_none\")]\n    pub unsigned_extension_outputs: Option<UnsignedExtensionOutputs>,\n}", ["C02", "C03", "C17"])
m("c02-a0-collapse-removed", "src/ctap2.rs", "if slice == [0xA0] {", "if slice == [0xA0, 0x00] {", ["C02", "C17"])
m("c02-gna-wrong", "src/ctap2.rs", "            GetAssertion(response) | GetNextAssertion(response) => cbor_serialize(response, data),", "            GetAssertion(response) => cbor_serialize(response, data),\n            GetNextAssertion(response) => cbor_serialize(&response.credential, data),", ["C02"])
m("c02-fmt-table", "src/ctap2.rs", "    const PACKED: &'static str = \"packed\";", "    const PACKED: &'static str = \"Packed\";", ["C02", "C14", "C18"])
# ---------------- C03
m("c03-ext-order", "src/ctap2/make_credential.rs", "    #[serde(rename = \"credProtect\")]\n    #[serde(skip_serializing_if = \"Option::is_none\")]\n    pub cred_protect: Option<u8>,\n\n    #[serde(rename = \"hmac-secret\")]\n    #[serde(skip_serializing_if = \"Option::is_none\")]\n    pub hmac_secret: Option<bool>,\n", "    #[serde(rename = \"hmac-secret\")]\n    #[serde(skip_serializing_if = \"Option::is_none\")]\n    pub hmac_secret: Option<bool>,\n\n    #[serde(rename = \"credProtect\")]\n    #[serde(skip_serializing_if = \"Option::is_none\")]\n    pub cred_protect: Option<u8>,\n", ["C03", "C07", "C15"])
m("c03-user-order", "src/webauthn.rs", "    pub id: Bytes<64>,\n    #[serde(\n        default,\n        deserialize_with = \"deserialize_from_str_and_skip_if_too_long\"\n    )]\n    #[serde(skip_serializing_if = \"Option::is_none\")]\n    pub icon: Option<String<128>>,\n    #[serde(\n        default,\n        skip_serializing_if = \"Option::is_none\",\n        deserialize_with = \"deserialize_from_str_and_truncate\"\n    )]\n    pub name: Option<String<64>>,",
  "    pub id: Bytes<64>,\n    #[serde(\n        default,\n        skip_serializing_if = \"Option::is_none\",\n        deserialize_with = \"deserialize_from_str_and_truncate\"\n    )]\n    pub name: Option<String<64>>,\n    #[serde(\n        default,\n        deserialize_with = \"deserialize_from_str_and_skip_if_too_long\"\n    )]\n    #[serde(skip_serializing_if = \"Option::is_none\")]\n    pub icon: Option<String<128>>,", ["C03", "C02", "C15"])
# ---------------- C04 / C13
m("c04-floor-window-2", "src/webauthn.rs", "let lower_bound = index.saturating_sub(3);", "let lower_bound = index.saturating_sub(2);", ["C04", "C13"])
m("c04-truncate-fixed-cut", "src/webauthn.rs", "    let split = floor_char_boundary(s, L);", "    let split = core::cmp::min(s.len(), L);", ["C04", "C13", "C01"])
m("c04-formats-unwrap", "src/ctap2.rs", "                        preference.known_formats.push(format).ok();", "                        preference.known_formats.push(format).unwrap();", ["C04", "C14", "C01"])
m("c04-params-unwrap", "src/webauthn.rs", "                    values.0.push(el).ok();", "                    values.0.push(el).unwrap();", ["C04", "C14", "C01"])
# ---------------- C05
m("c05-missing-to-invalid", "src/ctap2.rs", "                cbor_smol::Error::SerdeMissingField => Error::MissingParameter,", "                cbor_smol::Error::SerdeMissingField => Error::InvalidCbor,", ["C05"])
m("c05-badmajor-to-unexpected", "src/ctap2.rs", "                cbor_smol::Error::SerdeMissingField => Error::MissingParameter,", "                cbor_smol::Error::SerdeMissingField => Error::MissingParameter,\n                cbor_smol::Error::DeserializeBadMajor => Error::CborUnexpectedType,", ["C05", "C04"])
m("c05-rpid-default", "src/webauthn.rs", "pub struct PublicKeyCredentialRpEntity {\n    pub id: String<256>,", "pub struct PublicKeyCredentialRpEntity {\n    #[serde(default)]\n    pub id: String<256>,", ["C05"])
m("c05-cp-subcommand-optional", "src/ctap2/large_blobs.rs", "    // 0x03\n    pub offset: u32,", "    // 0x03\n    #[serde(skip_serializing_if = \"is_zero\")]\n    pub offset: u32,", ["C05"])
# ---------------- C06
m("c06-deny-unknown-descriptor", "src/webauthn.rs", "#[serde(rename_all = \"camelCase\")]\n/// Same as PublicKeyCredentialDescriptor but which deserializes using references", "#[serde(rename_all = \"camelCase\", deny_unknown_fields)]\n/// Same as PublicKeyCredentialDescriptor but which deserializes using references", ["C06"])
m("c06-deny-unknown-options", "src/ctap2.rs", "#[non_exhaustive]\npub struct AuthenticatorOptions {", "#[non_exhaustive]\n#[serde(deny_unknown_fields)]\npub struct AuthenticatorOptions {", ["C06"])
# ---------------- C07
m("c07-count-le", "src/ctap2.rs", "            .extend_from_slice(&self.sign_count.to_be_bytes())", "            .extend_from_slice(&self.sign_count.to_le_bytes())", ["C07"])
m("c07-idlen-le", "src/ctap2/make_credential.rs", "            .extend_from_slice(&credential_id_len.to_be_bytes())", "            .extend_from_slice(&credential_id_len.to_le_bytes())", ["C07"])
m("c07-pubkey-ok", "src/ctap2/make_credential.rs", "        buffer\n            .extend_from_slice(self.credential_public_key)\n            .map_err(|_| Error::Other)?;", "        buffer.extend_from_slice(self.credential_public_key).ok();", ["C07"])
m("c07-flag-uv", "src/ctap2.rs", "        const USER_VERIFIED = 1 << 2;", "        const USER_VERIFIED = 1 << 1;", ["C07"])
# ---------------- C08
m("c08-len-le-65", "src/ctap1.rs", "                if request.len() < 65 {", "                if request.len() < 64 {", ["C08"])
m("c08-class-after", "src/ctap1.rs", "        if cla != 0 {\n            return Err(Error::ClassNotSupported);\n        }\n\n        if ins == 0x3 {\n            // for some weird historical reason, [0, 3, 0, 0, 0, 0, 0, 0, 0]\n            // is valid to send here.\n            return Ok(Request::Version);\n        };",
  "        if ins == 0x3 {\n            return Ok(Request::Version);\n        };\n\n        if cla != 0 {\n            return Err(Error::ClassNotSupported);\n        }", ["C08"])
m("c08-control-byte", "src/ctap1.rs", "            0x08 => Ok(ControlByte::DontEnforceUserPresenceAndSign),", "            0x08 | 0x09 => Ok(ControlByte::DontEnforceUserPresenceAndSign),", ["C08", "C18"])
m("c08-kh-offset", "src/ctap1.rs", "                    key_handle: &request[65..],", "                    key_handle: &request[64..],", ["C08"])
# ---------------- C09
m("c09-count-le", "src/ctap1.rs", "                buf.extend_from_slice(&auth.count.to_be_bytes())?;", "                buf.extend_from_slice(&auth.count.to_le_bytes())?;", ["C09"])
m("c09-lost-question", "src/ctap1.rs", "                buf.extend_from_slice(&reg.attestation_certificate)?;", "                buf.extend_from_slice(&reg.attestation_certificate).ok();", ["C09"])
m("c09-new-swap-xy", "src/ctap1.rs", "            public_key_bytes.extend_from_slice(&public_key.x).unwrap();\n            public_key_bytes.extend_from_slice(&public_key.y).unwrap();", "            public_key_bytes.extend_from_slice(&public_key.y).unwrap();\n            public_key_bytes.extend_from_slice(&public_key.x).unwrap();", ["C09"])
# ---------------- C10
m("c10-reset-selection", "src/ctap2.rs", "                self.reset().inspect_err(|_e| {", "                self.selection().inspect_err(|_e| {", ["C10"])
m("c10-gna-calls-ga-variant", "src/ctap2.rs", "                Ok(Response::GetNextAssertion(\n                    self.get_next_assertion()", "                Ok(Response::GetAssertion(\n                    self.get_next_assertion()", ["C10"])
m("c10-error-swallowed", "src/ctap2.rs", "                self.selection().inspect_err(|_e| {\n                    debug!(\"error: {:?}\", _e);\n                })?;", "                self.selection().inspect_err(|_e| {\n                    debug!(\"error: {:?}\", _e);\n                }).ok();", ["C10"])
# ---------------- C11
m("c11-vendor-last", "src/operation.rs", "    pub const LAST: u8 = 0x7f;", "    pub const LAST: u8 = 0x7e;", ["C11", "C10"])
m("c11-config-supported", "src/ctap2.rs", "            Operation::BioEnrollment | Operation::PreviewBioEnrollment | Operation::Config => {", "            Operation::Config => Request::Selection,\n            Operation::BioEnrollment | Operation::PreviewBioEnrollment => {", ["C11", "C05"])
m("c11-into-u8", "src/operation.rs", "            Selection => 0x0B,", "            Selection => 0x0C,", ["C11"])
# ---------------- C12
m("c12-userid-65", "src/webauthn.rs", "pub struct PublicKeyCredentialUserEntity {\n    pub id: Bytes<64>,", "pub struct PublicKeyCredentialUserEntity {\n    pub id: Bytes<65>,", ["C12", "C05"])
m("c12-allowlist-11", "src/sizes.rs", "pub const MAX_CREDENTIAL_COUNT_IN_LIST: usize = 10;", "pub const MAX_CREDENTIAL_COUNT_IN_LIST: usize = 11;", ["C12", "C05"])
m("c12-saltenc-64", "src/ctap2/get_assertion.rs", "    pub salt_enc: Bytes<80>,", "    pub salt_enc: Bytes<64>,", ["C12", "C01"])
# ---------------- C14
m("c14-known-algs-break", "src/webauthn.rs", "                        // Drop unknown algorithms\n                        continue;", "                        // Drop unknown algorithms\n                        break;", ["C14", "C01"])
m("c14-unknown-flag", "src/ctap2.rs", "                        preference.known_formats.push(format).ok();\n                    } else {\n                        preference.unknown = true;", "                        preference.unknown = preference.known_formats.push(format).is_err();\n                    } else {\n                        preference.unknown = true;", ["C14", "C01"])
# ---------------- C15
m("c15-transport-asym", "src/ctap2/get_info.rs", "            Self::USB => Ok(Self::Usb),", "            Self::USB | \"USB\" => Ok(Self::Usb),", ["C18"])
m("c15-version-asym", "src/ctap2/get_info.rs", "            Version::Fido2_1Pre => Version::FIDO_2_1_PRE,", "            Version::Fido2_1Pre => Version::FIDO_2_1,", ["C15", "C18", "C02"])
# ---------------- C16
m("c16-cfg-field-mid", "src/ctap2/credential_management.rs", "    // 0x0B\n    #[serde(skip_serializing_if = \"Option::is_none\")]\n    pub large_blob_key: Option<ByteArray<32>>,\n    // 0x0C\n    #[cfg(feature = \"third-party-payment\")]\n    #[serde(skip_serializing_if = \"Option::is_none\")]\n    pub third_party_payment: Option<bool>,", "    // 0x0C\n    #[cfg(feature = \"third-party-payment\")]\n    #[serde(skip_serializing_if = \"Option::is_none\")]\n    pub third_party_payment: Option<bool>,\n    // 0x0B\n    #[serde(skip_serializing_if = \"Option::is_none\")]\n    pub large_blob_key: Option<ByteArray<32>>,", ["C16", "C02"])
m("c16-feature-dependent-cap", "src/ctap2/client_pin.rs", "    pub pin_token: Option<Bytes<48>>,", "    #[cfg(not(feature = \"large-blobs\"))]\n    pub pin_token: Option<Bytes<48>>,\n    #[cfg(feature = \"large-blobs\")]\n    #[serde(skip_serializing_if = \"Option::is_none\")]\n    pub pin_token: Option<Bytes<32>>,", ["C16"])
# ---------------- C17
m("c17-resize-l", "src/ctap2.rs", "                buffer.resize_default(l + 1).ok();", "                buffer.resize_default(l).ok();", ["C17", "C02"])
m("c17-err-keeps-body", "src/ctap2.rs", "            *status = Error::Other as u8;\n            buffer.resize_default(1).ok();", "            *status = Error::Other as u8;", ["C17"])
# ---------------- C18
m("c18-usb-caps", "src/ctap2/get_info.rs", "    const USB: &'static str = \"usb\";", "    const USB: &'static str = \"USB\";", ["C18", "C02"])
m("c18-pin-sub-8", "src/ctap2/client_pin.rs", "    GetPinUvAuthTokenUsingPinWithPermissions = 0x09,", "    GetPinUvAuthTokenUsingPinWithPermissions = 0x08,", ["C18", "C01"])
m("c18-status", "src/ctap2.rs", "    PinAuthInvalid = 0x33,\n    PinAuthBlocked = 0x34,", "    PinAuthInvalid = 0x34,\n    PinAuthBlocked = 0x33,", ["C18"])
m("c18-perm-bit", "src/ctap2/client_pin.rs", "        const LARGE_BLOB_WRITE = 0x10;", "        const LARGE_BLOB_WRITE = 0x40;", ["C18"])
# ---------------- C19
m("c19-bytes-no-min", "src/arbitrary.rs", "fn arbitrary_bytes<const N: usize>(u: &mut Unstructured<'_>) -> Result<Bytes<N>> {\n    let n = usize::arbitrary(u)?.min(N);", "fn arbitrary_bytes<const N: usize>(u: &mut Unstructured<'_>) -> Result<Bytes<N>> {\n    let n = usize::arbitrary(u)?.min(N + 1);", ["C19"])
m("c19-str-valid-up-to-plus", "src/arbitrary.rs", "            let i = e.valid_up_to();", "            let i = e.valid_up_to() + e.error_len().unwrap_or(0).min(1);", ["C19"])

def sh(cmd, **kw):
    return subprocess.run(cmd, shell=True, stdout=subprocess.PIPE, stderr=subprocess.STDOUT, text=True, **kw)

def clean():
    sh("git -C /repo checkout -- .")

def main():
    sel = sys.argv[1:]
    res = []
    os.chdir("/verif")
    for mu in M:
        if sel and not any(x in mu["name"] for x in sel):
            continue
        clean()
        p = os.path.join(REPO, mu["path"])
        src = open(p).read()
        if src.count(mu["old"]) < 1:
            print("%-32s PATTERN-NOT-FOUND" % mu["name"]); res.append((mu["name"], "nopattern")); continue
        open(p, "w").write(src.replace(mu["old"], mu["new"], mu["count"]))
        t = sh("cd /repo && cargo test --offline --all-features 2>&1 | grep -E '^test result|error(\\[|:)' ; cargo test --offline 2>&1 | grep -E '^test result|error(\\[|:)'")
        ok_tests = "error" not in t.stdout and "FAILED" not in t.stdout and t.stdout.count("test result: ok") >= 6
        out = []
        for pid in mu["props"]:
            r = sh("./check %s --tier quick" % pid)
            out.append("%s=%d" % (pid, r.returncode))
            if r.returncode == 2:
                out.append("(" + " ".join(l for l in r.stdout.splitlines() if "inconclusive" in l.lower())[:160] + ")")
        clean()
        print("%-32s tests=%s  %s" % (mu["name"], "pass" if ok_tests else "FAIL/NOCOMPILE", " ".join(out)), flush=True)
        res.append((mu["name"], ok_tests, out))
    clean()

if __name__ == "__main__":
    try:
        main()
    finally:
        clean()
