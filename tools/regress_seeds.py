#!/usr/bin/env python3
"""Regression over the seeded changes: apply each seeded/<id>/patch.diff to /repo, run the quick
check(s) that are recorded as catching it in meta.json (sanitizer stages skipped for speed unless
--full), expect exit 1, undo.  Never leaves /repo modified."""
import json, glob, os, subprocess, sys
full = "--full" in sys.argv
sel = [a for a in sys.argv[1:] if not a.startswith("--")]
# lanes (tools/regress_lanes.sh): a scratch copy of the crate and of this directory, and a slice i/N
REPO = os.environ.get("REGRESS_REPO", "/repo")
VERIF = os.environ.get("REGRESS_VERIF", "/verif")
part = [a for a in sys.argv[1:] if a.startswith("--part=")]
pi, pn = (int(x) for x in part[0][7:].split("/")) if part else (0, 1)
env = dict(os.environ)
if not full:
    env["VERIF_SKIP_BUILDS"] = "miri,fuzz"
# --corners: only the all-off / all-on feature configurations (a catch there is a catch in the full
# tier, whose shards are a superset); what is missed that way is re-run without the switch
if "--corners" in sys.argv:
    env["VERIF_ONLY_CFGS"] = "f000,f111,f111sa,f000sa"
bad = []
def sh(cmd, **kw):
    return subprocess.run(cmd, shell=True, stdout=subprocess.PIPE, stderr=subprocess.STDOUT, text=True, **kw)
try:
    dirs = sorted(glob.glob(VERIF + "/seeded/*/"), key=lambda d: os.path.basename(d.rstrip("/")))
    dirs = [d for i, d in enumerate(dirs) if i % pn == pi]
    for d in dirs:
        name = os.path.basename(d.rstrip("/"))
        if sel and not any(x in name for x in sel):
            continue
        patch = os.path.join(d, "patch.diff")
        meta = json.load(open(os.path.join(d, "meta.json"))) if os.path.exists(os.path.join(d, "meta.json")) else {}
        props = meta.get("caught_by") or {"D1": ["C04"], "D2": ["C03"], "D3": ["C03"]}.get(name, [])
        if not props:
            print(name, "no check recorded"); continue
        target = meta.get("breaks")
        prop = target if target in props else props[0]
        sh("git -C %s checkout -- ." % REPO)
        r = sh("git -C %s apply %s" % (REPO, patch))
        if r.returncode != 0:
            print(name, "PATCH DOES NOT APPLY"); bad.append(name); continue
        r = sh("./check %s --tier quick" % prop, cwd=VERIF, env=env)
        sh("git -C %s checkout -- ." % REPO)
        ok = r.returncode == 1 and "VIOLATION property=%s" % prop in r.stdout
        print("%-48s %s exit=%d %s" % (name, prop, r.returncode, "caught" if ok else "MISSED"), flush=True)
        if not ok:
            bad.append(name)
finally:
    sh("git -C %s checkout -- ." % REPO)
print("missed:", bad)
sys.exit(1 if bad else 0)
