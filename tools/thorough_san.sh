#!/bin/sh
./check --setup 2>&1 | tail -1
for p in C13 C19 C04; do
  /usr/bin/time -f "$p thorough wall %es rc=%x" ./check $p --tier thorough 2>&1 | grep -E 'thorough|VIOLATION|INCONCLUSIVE|inconclusive|crash|transient' | cut -c1-600
done
