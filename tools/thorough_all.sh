#!/bin/sh
./check --setup 2>&1 | tail -1
for p in C01 C02 C03 C05 C06 C07 C08 C09 C10 C11 C12 C14 C15 C16 C17 C18 C13 C19 C04; do
  /usr/bin/time -f "$p thorough wall %es rc=%x" ./check $p --tier thorough 2>&1 | grep -E 'thorough|VIOLATION|INCONCLUSIVE|inconclusive|crash' | cut -c1-400
done
