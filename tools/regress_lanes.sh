#!/bin/sh
# Parallel regression over the seeded changes: N scratch lanes under /tmp, each with its own copy of
# the crate and of /verif (path dependency redirected), each running a slice of tools/regress_seeds.py.
# /repo itself is not touched.  Everything under /tmp is removed at the end.
N=${1:-3}
OUT=${2:-/verif/work/regress}
mkdir -p "$OUT"
for i in $(seq 0 $((N-1))); do
  L=/tmp/lane$i
  rm -rf $L; mkdir -p $L
  rsync -a --exclude target /repo/ $L/repo/
  rsync -a --exclude target --exclude work --exclude replays --exclude .git /verif/ $L/verif/
  git -C $L/repo checkout -q -- . 
  sed -i "s#path = \"/repo\"#path = \"$L/repo\"#" $L/verif/harness/Cargo.toml
  sed -i "s#\"/repo/src/#\"$L/repo/src/#" $L/verif/check
  ( cd $L/verif && REGRESS_REPO=$L/repo REGRESS_VERIF=$L/verif python3 tools/regress_seeds.py $REGRESS_FLAGS --part=$i/$N > "$OUT/lane$i.log" 2>&1 ) &
done
wait
cat "$OUT"/lane*.log | grep -E "caught|MISSED|APPLY|no check" | sort > "$OUT/all.log"
grep -c caught "$OUT/all.log"
grep -E "MISSED|APPLY" "$OUT/all.log"
for i in $(seq 0 $((N-1))); do rm -rf /tmp/lane$i; done
echo LANES-DONE
