#![no_main]
//! Coverage- and comparison-guided workload source for C04 / C01 / C05 / C12–C14: every input the
//! fuzzer produces is judged by the same oracles as the generated workloads (`vh::fuzz`).
use libfuzzer_sys::fuzz_target;

fuzz_target!(|data: &[u8]| {
    let v = vh::fuzz::judge_bytes(data);
    if let Some((sig, detail)) = v.into_iter().next() {
        // a crash artifact is written by libFuzzer; the driver re-judges it with the native binary
        eprintln!("VH-FUZZ-VIOLATION {} :: {}", sig, detail.chars().take(300).collect::<String>());
        std::process::abort();
    }
});
