#![no_main]
//! Encode side (C02/C03): the input is the tape the response generators read from.
use libfuzzer_sys::fuzz_target;

fuzz_target!(|data: &[u8]| {
    let v = vh::fuzz::judge_encode(data);
    if let Some((sig, detail)) = v.into_iter().next() {
        eprintln!("VH-FUZZ-VIOLATION {} :: {}", sig, detail.chars().take(300).collect::<String>());
        std::process::abort();
    }
});
