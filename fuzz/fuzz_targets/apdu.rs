#![no_main]
//! CTAP1 APDU parsing (C08) against the reference decision function.
use libfuzzer_sys::fuzz_target;

fuzz_target!(|data: &[u8]| {
    let v = vh::fuzz::judge_apdu(data);
    if let Some((sig, detail)) = v.into_iter().next() {
        eprintln!("VH-FUZZ-VIOLATION {} :: {}", sig, detail.chars().take(300).collect::<String>());
        std::process::abort();
    }
});
