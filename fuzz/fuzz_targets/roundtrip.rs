#![no_main]
//! Round trips (C15): canonical bytes of a bidirectional type generated from the tape.
use libfuzzer_sys::fuzz_target;

fuzz_target!(|data: &[u8]| {
    let v = vh::fuzz::judge_roundtrip(data);
    if let Some((sig, detail)) = v.into_iter().next() {
        eprintln!("VH-FUZZ-VIOLATION {} :: {}", sig, detail.chars().take(300).collect::<String>());
        std::process::abort();
    }
});
