#![no_main]
//! `arbitrary` generators (C19): validity of whatever they build from the bytes.
use libfuzzer_sys::fuzz_target;

fuzz_target!(|data: &[u8]| {
    let v = vh::fuzz::judge_arb(data);
    if let Some((sig, detail)) = v.into_iter().next() {
        eprintln!("VH-FUZZ-VIOLATION {} :: {}", sig, detail.chars().take(300).collect::<String>());
        std::process::abort();
    }
});
