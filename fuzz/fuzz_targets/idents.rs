#![no_main]
//! Identifier tables (C18): a string is accepted iff it is listed.
use libfuzzer_sys::fuzz_target;

fuzz_target!(|data: &[u8]| {
    let v = vh::fuzz::judge_idents(data);
    if let Some((sig, detail)) = v.into_iter().next() {
        eprintln!("VH-FUZZ-VIOLATION {} :: {}", sig, detail.chars().take(300).collect::<String>());
        std::process::abort();
    }
});
