NOT_APPLICABLE = []
_base_note = ("Trusted base: the harness's independent model (harness/src/cbor.rs, schema.rs, spec tables) as a transcription of the specifications; "
              "rustc/cargo; the dependency versions pinned by the lock file. Held = no violation on the executions observed; inputs outside the "
              "enumerated domains and samples are not covered.")
TEXT = {
 "C01": dict(
   level_text="Reference-model monitor over generated executions: every well-formed request produced from the specification tables (all top-level optional subsets, all nested optional subsets one map at a time, boundary lattice + seeded random values, all 8 feature builds) is decoded by the real crate and its by-name projection must equal the model's normalisation. Exploration, not proof: values are a lattice plus samples.",
   design_ref="DESIGN.md §4 C01", level_note=_base_note,
   technique="runtime monitoring: reference-model oracle at the public decode boundary over generated + enumerated workloads (debug UB-checks; Miri in thorough)"),
 "C04": dict(
   level_text="Robustness monitor: exhaustive enumeration of all inputs of length <= 3 and of length 4 for the parameter-bearing commands, plus byte-level and structure-level mutation of well-formed messages, nesting/length bombs up to 7609 bytes, re-decode histories; outcome classified per input (return / unwind / abort / CPU limit) in a build with debug assertions, overflow checks and core UB-checks, a sample replayed under Miri (and ASan / valgrind memcheck in thorough); determinism by double decode from differently placed copies.",
   design_ref="DESIGN.md §4 C04", level_note=_base_note + " Stack depth on embedded targets is observed, not judged.",
   technique="runtime monitoring + sanitizers: outcome oracle under debug UB-checks/overflow checks, Miri, ASan, memcheck over exhaustive short inputs and mutation workloads"),
 "C05": dict(
   level_text="Systematic single-fault injection: every well-formed seed (minimal, maximal, random subsets) for every command crossed with every fault of the statement's classes (required member removed, truncation at every offset, each key duplicated, every head non-minimal at every wider width, every container indefinite, every other CBOR type in place of each value, each bounded member one past its limit), the observed status compared with the class table; plus all unsupported command bytes.",
   design_ref="DESIGN.md §4 C05", level_note=_base_note,
   technique="runtime monitoring: systematic fault enumeration with a status-class oracle at the decode boundary"),
}
