NOT_APPLICABLE = []
TEXT = {'C01': {'design_ref': 'DESIGN.md §4 C01',
         'level_note': "Trusted base: the harness's independent model (harness/src/cbor.rs, schema.rs, resp.rs, reference layouts in the monitors) as a "
                       'transcription of the specifications; rustc/cargo; the dependency versions pinned by the lock file. Held = no violation on the '
                       'executions observed; inputs outside the enumerated domains and samples are not covered.',
         'level_text': 'Reference-model monitor over generated executions: every well-formed request produced from the specification tables (all top-level '
                       'optional subsets, all nested optional subsets one map at a time, boundary lattice + seeded random values, all 8 feature builds) is '
                       "decoded by the real crate and its by-name projection must equal the model's normalisation. Exploration, not proof: values are a "
                       'lattice plus samples.',
         'technique': 'runtime monitoring: reference-model oracle at the public decode boundary over generated + enumerated workloads (debug UB-checks; Miri '
                      'in thorough)'},
 'C02': {'design_ref': 'DESIGN.md §4 C02',
         'level_note': "Trusted base: the harness's independent model (harness/src/cbor.rs, schema.rs, resp.rs, reference layouts in the monitors) as a "
                       'transcription of the specifications; rustc/cargo; the dependency versions pinned by the lock file. Held = no violation on the '
                       'executions observed; inputs outside the enumerated domains and samples are not covered.',
         'level_text': 'Reference-model monitor on the encode side: responses are built through the public API next to their model value and the emitted bytes '
                       "must equal status 0x00 + the model's canonical encoding (status byte alone when nothing is set); all 8 feature builds; subsets "
                       'exhaustive up to 10 optional members, singletons/pairs/complements/full/random beyond.',
         'technique': 'runtime monitoring: byte-exact reference-encoder oracle at the Response::serialize boundary'},
 'C03': {'design_ref': 'DESIGN.md §4 C03',
         'level_note': "Trusted base: the harness's independent model (harness/src/cbor.rs, schema.rs, resp.rs, reference layouts in the monitors) as a "
                       'transcription of the specifications; rustc/cargo; the dependency versions pinned by the lock file. Held = no violation on the '
                       'executions observed; inputs outside the enumerated domains and samples are not covered.',
         'level_text': 'Online checker of a format specification: everything the crate emits in the workload (response bodies, nested maps pairwise, '
                       'authenticator-data extension tails, stand-alone serialisable types) is fed to a strict CTAP2-canonical parser that names the violated '
                       "rule and offset; independent of C02's expected values.",
         'technique': 'runtime monitoring: canonical-form validator over emitted bytes, pairwise member enumeration'},
 'C04': {'design_ref': 'DESIGN.md §4 C04',
         'level_note': "Trusted base: the harness's independent model (harness/src/cbor.rs, schema.rs, resp.rs, reference layouts in the monitors) as a "
                       'transcription of the specifications; rustc/cargo; the dependency versions pinned by the lock file. Held = no violation on the '
                       'executions observed; inputs outside the enumerated domains and samples are not covered. Stack depth on embedded targets is observed, '
                       'not judged.',
         'level_text': 'Robustness monitor: exhaustive enumeration of all inputs of length <= 3 and of length 4 for the parameter-bearing commands, plus '
                       'byte-level and structure-level mutation of well-formed messages, nesting/length bombs up to 7609 bytes, re-decode histories; outcome '
                       'classified per input (return / unwind / abort / CPU limit) in a build with debug assertions, overflow checks and core UB-checks, a '
                       'sample replayed under Miri (and ASan / valgrind memcheck in thorough); determinism by double decode from differently placed copies.',
         'technique': 'runtime monitoring + sanitizers: outcome oracle under debug UB-checks/overflow checks, Miri, ASan, memcheck over exhaustive short '
                      'inputs and mutation workloads'},
 'C05': {'design_ref': 'DESIGN.md §4 C05',
         'level_note': "Trusted base: the harness's independent model (harness/src/cbor.rs, schema.rs, resp.rs, reference layouts in the monitors) as a "
                       'transcription of the specifications; rustc/cargo; the dependency versions pinned by the lock file. Held = no violation on the '
                       'executions observed; inputs outside the enumerated domains and samples are not covered.',
         'level_text': 'Systematic single-fault injection: every well-formed seed (minimal, maximal, random subsets) for every command crossed with every '
                       "fault of the statement's classes (required member removed, truncation at every offset, each key duplicated, every head non-minimal at "
                       'every wider width, every container indefinite, every other CBOR type in place of each value, each bounded member one past its limit), '
                       'the observed status compared with the class table; plus all unsupported command bytes; plus double faults (required parameters removed and an '
                       'encoding-level fault on top, which must stay InvalidCbor).',
         'technique': 'runtime monitoring: systematic fault enumeration with a status-class oracle at the decode boundary'},
 'C06': {'design_ref': 'DESIGN.md §4 C06',
         'level_note': "Trusted base: the harness's independent model (harness/src/cbor.rs, schema.rs, resp.rs, reference layouts in the monitors) as a "
                       'transcription of the specifications; rustc/cargo; the dependency versions pinned by the lock file. Held = no violation on the '
                       'executions observed; inputs outside the enumerated domains and samples are not covered.',
         'level_text': 'Differential monitor: the same request with and without unknown members (every position of every extensible host map, values over the '
                       'full definite-length CBOR grammar incl. deep and message-sized ones) must decode to equal values, and the base must equal the model.',
         'technique': 'runtime monitoring: differential oracle (with/without unknown member) plus reference model'},
 'C07': {'design_ref': 'DESIGN.md §4 C07',
         'level_note': "Trusted base: the harness's independent model (harness/src/cbor.rs, schema.rs, resp.rs, reference layouts in the monitors) as a "
                       'transcription of the specifications; rustc/cargo; the dependency versions pinned by the lock file. Held = no violation on the '
                       'executions observed; inputs outside the enumerated domains and samples are not covered.',
         'level_text': 'Reference-layout monitor for AuthenticatorData::serialize over a dense sweep of credential-id lengths across the capacity threshold, '
                       'all flag combinations, counter boundaries, extension subsets, both flavours; byte-for-byte comparison and fit rule.',
         'technique': 'runtime monitoring: reference byte-layout oracle and fit/overflow frontier'},
 'C08': {'design_ref': 'DESIGN.md §4 C08',
         'level_note': "Trusted base: the harness's independent model (harness/src/cbor.rs, schema.rs, resp.rs, reference layouts in the monitors) as a "
                       'transcription of the specifications; rustc/cargo; the dependency versions pinned by the lock file. Held = no violation on the '
                       'executions observed; inputs outside the enumerated domains and samples are not covered.',
         'level_text': 'Reference-decision monitor over the complete APDU header space (2^24 headers) and the fully crossed decision-relevant sub-space in all '
                       'four length encodings and both entry points; decoded fields compared with reference slices.',
         'technique': 'runtime monitoring: exhaustive header enumeration against a reference decision function'},
 'C09': {'design_ref': 'DESIGN.md §4 C09',
         'level_note': "Trusted base: the harness's independent model (harness/src/cbor.rs, schema.rs, resp.rs, reference layouts in the monitors) as a "
                       'transcription of the specifications; rustc/cargo; the dependency versions pinned by the lock file. Held = no violation on the '
                       'executions observed; inputs outside the enumerated domains and samples are not covered.',
         'level_text': 'Reference-layout monitor for ctap1::Response::serialize over all part lengths and a free-space sweep around every part boundary (by '
                       'const-generic capacity and by pre-filled prefix), incl. append histories.',
         'technique': 'runtime monitoring: reference layout + fit frontier + prefix-preservation invariant over capacity/prefix sweeps'},
 'C10': {'design_ref': 'DESIGN.md §4 C10',
         'level_note': "Trusted base: the harness's independent model (harness/src/cbor.rs, schema.rs, resp.rs, reference layouts in the monitors) as a "
                       'transcription of the specifications; rustc/cargo; the dependency versions pinned by the lock file. Held = no violation on the '
                       'executions observed; inputs outside the enumerated domains and samples are not covered.',
         'level_text': 'Call-log monitor: a recording mock authenticator observes which handler ran, with what argument, and the returned value is compared '
                       'with the per-handler sentinel / programmed error; all variants x behaviours x entry points.',
         'technique': 'runtime monitoring: recording mock + call-log checker (exactly-once, right handler, result propagation)'},
 'C11': {'design_ref': 'DESIGN.md §4 C11',
         'level_note': "Trusted base: the harness's independent model (harness/src/cbor.rs, schema.rs, resp.rs, reference layouts in the monitors) as a "
                       'transcription of the specifications; rustc/cargo; the dependency versions pinned by the lock file. Held = no violation on the '
                       'executions observed; inputs outside the enumerated domains and samples are not covered.',
         'level_text': 'Exhaustive table monitor over all 256 command bytes with many tails against the specification table; round trip and injectivity.',
         'technique': 'runtime monitoring: exhaustive enumeration of the byte table against a specification table'},
 'C12': {'design_ref': 'DESIGN.md §4 C12',
         'level_note': "Trusted base: the harness's independent model (harness/src/cbor.rs, schema.rs, resp.rs, reference layouts in the monitors) as a "
                       'transcription of the specifications; rustc/cargo; the dependency versions pinned by the lock file. Held = no violation on the '
                       'executions observed; inputs outside the enumerated domains and samples are not covered.',
         'level_text': 'Boundary monitor: each bounded member probed on its lattice inside an otherwise valid message; accept/reject must match the '
                       'specification limit and every accepted request must equal the model normalisation in full.',
         'technique': 'runtime monitoring: boundary-lattice probing with accept/reject + value-preservation oracle'},
 'C13': {'design_ref': 'DESIGN.md §4 C13',
         'level_note': "Trusted base: the harness's independent model (harness/src/cbor.rs, schema.rs, resp.rs, reference layouts in the monitors) as a "
                       'transcription of the specifications; rustc/cargo; the dependency versions pinned by the lock file. Held = no violation on the '
                       'executions observed; inputs outside the enumerated domains and samples are not covered.',
         'level_text': 'Reference-truncation monitor (std char boundaries) over every character-width arrangement around the cut and all lengths 0..=300, '
                       'icons of every length, ill-formed UTF-8 at every position; the unsafe char-boundary routine is additionally executed under debug '
                       'UB-checks and Miri (ASan in thorough).',
         'technique': 'runtime monitoring + sanitizers: reference truncation oracle, exhaustive width patterns, Miri/UB-checks on the unsafe routine'},
 'C14': {'design_ref': 'DESIGN.md §4 C14',
         'level_note': "Trusted base: the harness's independent model (harness/src/cbor.rs, schema.rs, resp.rs, reference layouts in the monitors) as a "
                       'transcription of the specifications; rustc/cargo; the dependency versions pinned by the lock file. Held = no violation on the '
                       'executions observed; inputs outside the enumerated domains and samples are not covered.',
         'level_text': 'Reference-filter monitor: exhaustive short lists over 4-letter alphabets and random long lists for both lossy list types in all three '
                       'carriers.',
         'technique': 'runtime monitoring: exhaustive short-list enumeration against reference filters'},
 'C15': {'design_ref': 'DESIGN.md §4 C15',
         'level_note': "Trusted base: the harness's independent model (harness/src/cbor.rs, schema.rs, resp.rs, reference layouts in the monitors) as a "
                       'transcription of the specifications; rustc/cargo; the dependency versions pinned by the lock file. Held = no violation on the '
                       'executions observed; inputs outside the enumerated domains and samples are not covered.',
         'level_text': 'Round-trip monitor (oracle-free equality) for every bidirectional type in both directions, canonical inputs from the model, all 8 '
                       'feature builds.',
         'technique': 'runtime monitoring: encode/decode round-trip equality in both directions'},
 'C16': {'design_ref': 'DESIGN.md §4 C16',
         'level_note': "Trusted base: the harness's independent model (harness/src/cbor.rs, schema.rs, resp.rs, reference layouts in the monitors) as a "
                       'transcription of the specifications; rustc/cargo; the dependency versions pinned by the lock file. Held = no violation on the '
                       'executions observed; inputs outside the enumerated domains and samples are not covered.',
         'level_text': 'Offline checker over recorded logs: each of the 10 feature builds records a transcript of the same common-member corpus; the driver '
                       'compares them line by line; each line is also judged against the model.',
         'technique': 'runtime monitoring: cross-build transcript comparison (offline log checker) + reference model'},
 'C17': {'design_ref': 'DESIGN.md §4 C17',
         'level_note': "Trusted base: the harness's independent model (harness/src/cbor.rs, schema.rs, resp.rs, reference layouts in the monitors) as a "
                       'transcription of the specifications; rustc/cargo; the dependency versions pinned by the lock file. Held = no violation on the '
                       'executions observed; inputs outside the enumerated domains and samples are not covered.',
         'level_text': 'Fit-frontier monitor: for each response and each capacity in a window around its exact size (capacities instantiated at compile time), '
                       'the buffer must hold the whole message or exactly 0x7F, independent of the prior buffer content; re-used buffer histories.',
         'technique': 'runtime monitoring: capacity sweep around the fit frontier with prefill independence and history checks'},
 'C18': {'design_ref': 'DESIGN.md §4 C18',
         'level_note': "Trusted base: the harness's independent model (harness/src/cbor.rs, schema.rs, resp.rs, reference layouts in the monitors) as a "
                       'transcription of the specifications; rustc/cargo; the dependency versions pinned by the lock file. Held = no violation on the '
                       'executions observed; inputs outside the enumerated domains and samples are not covered.',
         'level_text': 'Exhaustive table monitor for every identifier enumeration in both directions plus rejection of the edit-distance-1 neighbourhood of '
                       'every spelling and of all unlisted numbers.',
         'technique': 'runtime monitoring: exhaustive table enumeration + neighbourhood rejection'},
 'C19': {'design_ref': 'DESIGN.md §4 C19',
         'level_note': "Trusted base: the harness's independent model (harness/src/cbor.rs, schema.rs, resp.rs, reference layouts in the monitors) as a "
                       'transcription of the specifications; rustc/cargo; the dependency versions pinned by the lock file. Held = no violation on the '
                       'executions observed; inputs outside the enumerated domains and samples are not covered.',
         'level_text': 'Generator monitor: arbitrary-built requests from hostile byte strings are validated (UTF-8, capacity), formatted, cloned, compared and '
                       'dispatched; run under debug UB-checks, a sample under Miri (ASan in thorough) because the generator contains from_utf8_unchecked and a '
                       'pointer cast.',
         'technique': 'runtime monitoring + sanitizers: validity oracle on generated values under debug UB-checks, Miri, ASan'}}
