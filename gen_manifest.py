#!/usr/bin/env python3
"""Regenerates MANIFEST.json from the tables in ./check and ./manifest_text.py (kept in one place so
that the registered commands, levels and techniques cannot drift from what the driver runs)."""
import json, importlib.machinery, importlib.util, os
ROOT = os.path.dirname(os.path.abspath(__file__))
loader = importlib.machinery.SourceFileLoader("check", os.path.join(ROOT, "check"))
spec = importlib.util.spec_from_loader("check", loader)
check = importlib.util.module_from_spec(spec)
loader.exec_module(check)
from manifest_text import TEXT, NOT_APPLICABLE

checks = []
for pid in sorted(check.PROPS):
    P = check.PROPS[pid]
    t = TEXT[pid]
    checks.append(dict(
        property_id=pid,
        quick_cmd="./check %s --tier quick" % pid,
        thorough_cmd="./check %s --tier thorough" % pid,
        evidence_file="evidence/%s.json" % pid,
        replay_cmd_template="./check %s --replay {path}" % pid,
        engine="vh",
        level_claimed=dict(category=P["level"], text=t["level_text"], design_ref=t["design_ref"]),
        level_note=t["level_note"],
        technique=t["technique"] + ("; libFuzzer (coverage/comparison-guided, ASan) as an additional workload source judged by the same oracle" if any(st["build"] == "fuzz" for st in P["stages"]) else "") + "; generators fed with the literals of the source tree under test",
    ))
m = dict(
    version=1,
    setup_cmd="./check --setup",
    hooks=dict(
        guard="ctap_types_verif",
        enable="none needed: every observation is made at the public API boundary; the guard name --cfg ctap_types_verif is reserved but no source hook exists",
        baseline_off_cmd="cd /repo && cargo test --workspace --no-fail-fast --offline",
        source_commits=[],
        add_only=True,
    ),
    engines=[dict(name="vh", path="harness/", serves_properties=sorted(check.PROPS),
                  kind_free_text="Rust harness crate (path dependency on /repo) with an independent executable model of the wire formats, per-property runtime monitors, event/coverage accounting; run in sharded child processes by the python driver ./check under debug UB-checks + overflow checks, Miri, AddressSanitizer and valgrind memcheck")],
    checks=checks,
    notes="Runtime monitoring only. Verdicts are three-valued: exit 0 held on what was observed, exit 1 VIOLATION (replay file under replays/), exit 2 inconclusive. known_findings.json lists genuine defects (all three found so far are repaired by fix: commits in /repo).",
    not_applicable=NOT_APPLICABLE,
)
with open(os.path.join(ROOT, "MANIFEST.json"), "w") as f:
    json.dump(m, f, indent=1)
print("MANIFEST.json written with %d checks" % len(checks))
