//! Specification tables for CTAP2 *requests*, written from the CTAP 2.0/2.1/2.2 and WebAuthn
//! texts (parameter keys, member names, types, limits, optionality, documented lossy rules), plus
//! the generic machinery driven by them: value generation, normalisation to the expected decoded
//! value, tree walking for fault injection.
//!
//! Nothing here looks at the crate under test.  The only configuration input is which optional
//! protocol members the build is supposed to know (third-party-payment).

use crate::cbor::{canonicalize, V};
use crate::rng::Rng;

pub const MAX_MSG: usize = 7609;
pub const UNB: usize = usize::MAX;

#[derive(Clone, Debug)]
pub enum S {
    UInt { max: u64 },
    Int { min: i128, max: i128 },
    Bool,
    Bytes { min: usize, max: usize },
    Text { max: usize },
    /// lossy: cut to the longest prefix <= max bytes that ends on a character boundary
    TextTrunc { max: usize },
    /// lossy: reported absent when longer than max
    TextDropIfLonger { max: usize },
    /// lossy: accepted whatever its length, content not kept (presence only)
    TextDiscard,
    UEnum(Vec<u64>),
    Map(MapS),
    Array { of: Box<S>, max: usize },
    /// pubKeyCredParams: array of {alg, type}; lossy filter
    Params,
    /// attestationFormatsPreference: array of text; lossy filter
    Formats,
    /// COSE_Key, EC2 / P-256 / ECDH-ES+HKDF-256
    CoseEcdh,
}

#[derive(Clone, Debug)]
pub struct Member {
    pub key: V,
    pub name: &'static str,
    pub s: S,
    pub required: bool,
    pub aliases: Vec<&'static str>,
}

#[derive(Clone, Debug)]
pub struct MapS {
    pub kind: &'static str,
    pub members: Vec<Member>,
    /// text-keyed maps the specifications let platforms extend: unknown members are ignored
    pub extensible: bool,
}

fn mi(key: i128, name: &'static str, s: S, required: bool) -> Member {
    Member {
        key: V::int(key),
        name,
        s,
        required,
        aliases: vec![],
    }
}
fn mt(key: &'static str, s: S, required: bool) -> Member {
    Member {
        key: V::text(key),
        name: key,
        s,
        required,
        aliases: vec![],
    }
}

pub const U8MAX: u64 = 0xff;
pub const U32MAX: u64 = 0xffff_ffff;

/// C16 restricts its corpus to members every configuration knows.
pub static COMMON_ONLY: std::sync::atomic::AtomicBool = std::sync::atomic::AtomicBool::new(false);

pub fn tpp() -> bool {
    cfg!(feature = "tpp") && !COMMON_ONLY.load(std::sync::atomic::Ordering::Relaxed)
}

pub fn rp_entity() -> S {
    let mut icon = mt("icon", S::TextDiscard, false);
    icon.aliases = vec!["url"];
    S::Map(MapS {
        kind: "rp",
        extensible: true,
        members: vec![
            mt("id", S::Text { max: 256 }, true),
            mt("name", S::TextTrunc { max: 64 }, false),
            icon,
        ],
    })
}

pub fn user_entity() -> S {
    S::Map(MapS {
        kind: "user",
        extensible: true,
        members: vec![
            mt("id", S::Bytes { min: 0, max: 64 }, true),
            mt("icon", S::TextDropIfLonger { max: 128 }, false),
            mt("name", S::TextTrunc { max: 64 }, false),
            mt("displayName", S::TextTrunc { max: 64 }, false),
        ],
    })
}

pub fn descriptor_ref() -> S {
    S::Map(MapS {
        kind: "descriptor",
        extensible: true,
        members: vec![
            mt("id", S::Bytes { min: 0, max: UNB }, true),
            mt("type", S::Text { max: UNB }, true),
        ],
    })
}

pub fn descriptor_owned() -> S {
    S::Map(MapS {
        kind: "descriptor",
        extensible: true,
        members: vec![
            mt("id", S::Bytes { min: 0, max: 255 }, true),
            mt("type", S::Text { max: 32 }, true),
        ],
    })
}

pub fn ga_extensions_output() -> S {
    let mut members = vec![mt("hmac-secret", S::Bytes { min: 0, max: 80 }, false)];
    if tpp() {
        members.push(mt("thirdPartyPayment", S::Bool, false));
    }
    S::Map(MapS {
        kind: "ga_extensions_output",
        extensible: true,
        members,
    })
}

pub fn options() -> S {
    S::Map(MapS {
        kind: "options",
        extensible: true,
        members: vec![
            mt("rk", S::Bool, false),
            mt("up", S::Bool, false),
            mt("uv", S::Bool, false),
        ],
    })
}

pub fn mc_extensions() -> S {
    let mut members = vec![
        mt("credProtect", S::UInt { max: U8MAX }, false),
        mt("hmac-secret", S::Bool, false),
        mt("largeBlobKey", S::Bool, false),
    ];
    if tpp() {
        members.push(mt("thirdPartyPayment", S::Bool, false));
    }
    S::Map(MapS {
        kind: "mc_extensions",
        extensible: true,
        members,
    })
}

pub fn hmac_secret_input() -> S {
    S::Map(MapS {
        kind: "hmac_secret_input",
        extensible: false,
        members: vec![
            mi(1, "keyAgreement", S::CoseEcdh, true),
            mi(2, "saltEnc", S::Bytes { min: 0, max: 80 }, true),
            mi(3, "saltAuth", S::Bytes { min: 0, max: 32 }, true),
            mi(4, "pinUvAuthProtocol", S::UInt { max: U32MAX }, false),
        ],
    })
}

pub fn ga_extensions() -> S {
    let mut members = vec![
        mt("hmac-secret", hmac_secret_input(), false),
        mt("largeBlobKey", S::Bool, false),
    ];
    if tpp() {
        members.push(mt("thirdPartyPayment", S::Bool, false));
    }
    S::Map(MapS {
        kind: "ga_extensions",
        extensible: true,
        members,
    })
}

pub fn make_credential() -> S {
    S::Map(MapS {
        kind: "make_credential",
        extensible: false,
        members: vec![
            mi(1, "clientDataHash", S::Bytes { min: 0, max: UNB }, true),
            mi(2, "rp", rp_entity(), true),
            mi(3, "user", user_entity(), true),
            mi(4, "pubKeyCredParams", S::Params, true),
            mi(
                5,
                "excludeList",
                S::Array {
                    of: Box::new(descriptor_ref()),
                    max: 16,
                },
                false,
            ),
            mi(6, "extensions", mc_extensions(), false),
            mi(7, "options", options(), false),
            mi(8, "pinUvAuthParam", S::Bytes { min: 0, max: UNB }, false),
            mi(9, "pinUvAuthProtocol", S::UInt { max: U32MAX }, false),
            mi(10, "enterpriseAttestation", S::UInt { max: U32MAX }, false),
            mi(11, "attestationFormatsPreference", S::Formats, false),
        ],
    })
}

pub fn get_assertion() -> S {
    S::Map(MapS {
        kind: "get_assertion",
        extensible: false,
        members: vec![
            mi(1, "rpId", S::Text { max: UNB }, true),
            mi(2, "clientDataHash", S::Bytes { min: 0, max: UNB }, true),
            mi(
                3,
                "allowList",
                S::Array {
                    of: Box::new(descriptor_ref()),
                    max: 10,
                },
                false,
            ),
            mi(4, "extensions", ga_extensions(), false),
            mi(5, "options", options(), false),
            mi(6, "pinUvAuthParam", S::Bytes { min: 0, max: UNB }, false),
            mi(7, "pinUvAuthProtocol", S::UInt { max: U32MAX }, false),
            mi(8, "enterpriseAttestation", S::UInt { max: U32MAX }, false),
            mi(9, "attestationFormatsPreference", S::Formats, false),
        ],
    })
}

pub fn client_pin() -> S {
    S::Map(MapS {
        kind: "client_pin",
        extensible: false,
        members: vec![
            mi(1, "pinUvAuthProtocol", S::UInt { max: U8MAX }, true),
            mi(2, "subCommand", S::UEnum(vec![1, 2, 3, 4, 5, 6, 7, 9]), true),
            mi(3, "keyAgreement", S::CoseEcdh, false),
            mi(4, "pinUvAuthParam", S::Bytes { min: 0, max: UNB }, false),
            mi(5, "newPinEnc", S::Bytes { min: 0, max: UNB }, false),
            mi(6, "pinHashEnc", S::Bytes { min: 0, max: UNB }, false),
            mi(9, "permissions", S::UInt { max: U8MAX }, false),
            mi(10, "rpId", S::Text { max: UNB }, false),
        ],
    })
}

pub fn cm_subcommand_params() -> S {
    S::Map(MapS {
        kind: "cm_params",
        extensible: false,
        members: vec![
            mi(1, "rpIDHash", S::Bytes { min: 32, max: 32 }, false),
            mi(2, "credentialID", descriptor_ref(), false),
            mi(3, "user", user_entity(), false),
        ],
    })
}

pub fn credential_management() -> S {
    S::Map(MapS {
        kind: "credential_management",
        extensible: false,
        members: vec![
            mi(1, "subCommand", S::UEnum(vec![1, 2, 3, 4, 5, 6, 7]), true),
            mi(2, "subCommandParams", cm_subcommand_params(), false),
            mi(3, "pinUvAuthProtocol", S::UInt { max: U8MAX }, false),
            mi(4, "pinUvAuthParam", S::Bytes { min: 0, max: UNB }, false),
        ],
    })
}

pub fn large_blobs() -> S {
    S::Map(MapS {
        kind: "large_blobs",
        extensible: false,
        members: vec![
            mi(1, "get", S::UInt { max: U32MAX }, false),
            mi(2, "set", S::Bytes { min: 0, max: UNB }, false),
            mi(3, "offset", S::UInt { max: U32MAX }, true),
            mi(4, "length", S::UInt { max: U32MAX }, false),
            mi(5, "pinUvAuthParam", S::Bytes { min: 0, max: UNB }, false),
            mi(6, "pinUvAuthProtocol", S::UInt { max: U32MAX }, false),
        ],
    })
}

/// (command byte, name, schema) of the parameter-bearing commands.
pub fn commands() -> Vec<(u8, &'static str, S)> {
    vec![
        (0x01, "MakeCredential", make_credential()),
        (0x02, "GetAssertion", get_assertion()),
        (0x06, "ClientPin", client_pin()),
        (0x0a, "CredentialManagement", credential_management()),
        (0x0c, "LargeBlobs", large_blobs()),
    ]
}

pub fn command_schema(cmd: u8) -> Option<S> {
    let c = if cmd == 0x41 { 0x0a } else { cmd };
    commands().into_iter().find(|x| x.0 == c).map(|x| x.2)
}

pub fn n_optional(s: &S) -> usize {
    match s {
        S::Map(m) => m.members.iter().filter(|x| !x.required).count(),
        _ => 0,
    }
}

// ------------------------------------------------------------------------------------------------
// generation

#[derive(Clone, Copy, Debug, PartialEq)]
pub enum Nested {
    All,
    OnlyRequired,
    Random,
}

pub struct G<'r> {
    pub rng: &'r mut Rng,
    /// presence bits for the optional members of the top-level map (in declaration order)
    pub top_mask: Option<u64>,
    pub nested: Nested,
    /// one nested map kind whose optional members follow this mask
    pub focus: Option<(&'static str, u64)>,
    /// keep unbounded members small
    pub small: bool,
    /// stay inside the lossless domain: names/icons within their capacity, no rp icon, only known
    /// algorithms and formats (C15: round trips are the identity only there)
    pub lossless: bool,
    pub depth: usize,
}

impl<'r> G<'r> {
    pub fn new(rng: &'r mut Rng) -> G<'r> {
        G {
            rng,
            top_mask: None,
            nested: Nested::Random,
            focus: None,
            small: false,
            lossless: false,
            depth: 0,
        }
    }
}

const INT_LATTICE: [u64; 26] = [
    0,
    1,
    2,
    3,
    23,
    24,
    25,
    127,
    128,
    255,
    256,
    257,
    512,
    0x7fff,
    0x8000,
    65535,
    65536,
    0x0100_0000,
    0x00ff_ff00,
    0x7fff_ffff,
    0x8000_0000,
    0xffff_fffe,
    0xffff_ffff,
    0x1_0000_0000,
    0x7fff_ffff_ffff_ffff,
    0xffff_ffff_ffff_ffff,
];

/// Numbers that mean something in the protocols (defaults, limits, sizes used by transports and
/// platforms): code that special-cases a value special-cases one of these.
const SIGNIFICANT: [u64; 40] = [
    1, 2, 3, 4, 5, 6, 7, 8, 9, 10, 12, 16, 20, 32, 48, 63, 64, 65, 72, 77, 80, 100, 128, 200, 255, 256, 300, 512, 676, 1000,
    1024, 1200, 2048, 3008, 3072, 4096, 7609, 8192, 10000, 65535,
];

pub fn gen_uint(rng: &mut Rng, max: u64) -> u64 {
    let lits = literals();
    if !lits.numbers.is_empty() && rng.chance(1, 6) {
        let v = *rng.pick(&lits.numbers);
        let v = match rng.below(4) {
            0 => v.wrapping_add(1),
            1 => v.wrapping_sub(1),
            _ => v,
        };
        if v <= max {
            return v;
        }
    }
    if rng.chance(1, 5) {
        let c: Vec<u64> = SIGNIFICANT.iter().cloned().filter(|x| *x <= max).collect();
        if !c.is_empty() {
            return *rng.pick(&c);
        }
    }
    match rng.below(4) {
        0 => {
            let c: Vec<u64> = INT_LATTICE.iter().cloned().filter(|x| *x <= max).collect();
            *rng.pick(&c)
        }
        1 => max - rng.below(2).min(max),
        2 => rng.below(max.min(300) + 1),
        _ => {
            if max == u64::MAX {
                rng.u64()
            } else {
                rng.below(max + 1)
            }
        }
    }
}

pub fn gen_len(rng: &mut Rng, min: usize, max: usize, small: bool) -> usize {
    let soft = if small { 40 } else { 320 };
    if max == UNB {
        return match rng.below(8) {
            0 => min,
            1 => min.max(1),
            2 => *rng.pick(&[16usize, 23, 24, 32, 48, 64, 65]),
            3 if !small => *rng.pick(&[128usize, 192, 255, 256, 257, 320]),
            _ => min + rng.usize(soft),
        }
        .max(min);
    }
    if min >= max {
        return max;
    }
    match rng.below(9) {
        0 => min,
        1 => (min + 1).min(max),
        2 => max - 1,
        3 | 4 => max,
        5 => {
            // multiples of 16 / 32 / 64 inside the range
            let step = *rng.pick(&[16usize, 32, 64]);
            let k = (max / step).max(1);
            (step * (1 + rng.usize(k))).clamp(min, max)
        }
        _ => min + rng.usize(max - min + 1),
    }
}

/// Literals harvested by the driver from the source tree under test (string, byte-string and
/// integer literals of /repo/src): a *workload dictionary* — code that special-cases a token or a
/// number has to spell it somewhere.  The oracles never look at it.
pub struct Literals {
    pub texts: Vec<String>,
    pub numbers: Vec<u64>,
}

static LITERALS: std::sync::OnceLock<Literals> = std::sync::OnceLock::new();

pub fn load_literals(path: &str) {
    let mut texts = Vec::new();
    let mut numbers = Vec::new();
    if let Ok(s) = std::fs::read_to_string(path) {
        for line in s.lines() {
            if let Some(h) = line.strip_prefix("S ") {
                if let Ok(t) = String::from_utf8(crate::cbor::unhex(h)) {
                    if t.len() <= 200 {
                        texts.push(t);
                    }
                }
            } else if let Some(n) = line.strip_prefix("N ") {
                if let Ok(v) = n.trim().parse::<u64>() {
                    numbers.push(v);
                }
            }
        }
    }
    let _ = LITERALS.set(Literals { texts, numbers });
}

pub fn literals() -> &'static Literals {
    LITERALS.get_or_init(|| Literals { texts: Vec::new(), numbers: Vec::new() })
}

/// Byte content of length n: mostly random, sometimes one of the special shapes that code tends to
/// treat specially (all zero, all 0xFF, leading 0x00 / 0xFF / 0x80, ASCII of a member name,
/// ascending bytes, the CBOR break / map bytes).
pub fn gen_bytes_content(rng: &mut Rng, n: usize) -> Vec<u8> {
    let lits = literals();
    let mut b = match rng.below(16) {
        5 if !lits.texts.is_empty() => {
            // a harvested literal as prefix, as suffix or repeated
            let w = rng.pick(&lits.texts).as_bytes().to_vec();
            let mut v = rng.bytes(n);
            if !w.is_empty() && w.len() <= n {
                match rng.below(3) {
                    0 => v[..w.len()].copy_from_slice(&w),
                    1 => v[n - w.len()..].copy_from_slice(&w),
                    _ => v = w.iter().cycle().take(n).cloned().collect(),
                }
            }
            v
        }
        0 => vec![0x00; n],
        1 => vec![0xff; n],
        2 => (0..n).map(|i| i as u8).collect(),
        3 => {
            let w = *rng.pick(&["id", "name", "type", "public-key", "icon", "rk", "up", "uv", "alg", "hmac-secret"]);
            w.as_bytes().iter().cycle().take(n).cloned().collect()
        }
        4 => vec![*rng.pick(&[0xa0u8, 0xf6, 0x7f, 0x80, 0x01, 0x40, 0x60, 0x9f, 0xbf]); n],
        _ => rng.bytes(n),
    };
    if n > 0 {
        match rng.below(14) {
            0 => b[0] = 0x00,
            1 => b[0] = 0xff,
            2 => b[0] = 0x80,
            3 => b[n - 1] = 0x00,
            4 => b[n - 1] = 0xff,
            // contents that end (or start) like CBOR structure: status byte + empty map, break,
            // null, an empty array (code that looks at the tail of a message instead of its shape)
            5 if n >= 2 => {
                b[n - 2] = 0x00;
                b[n - 1] = 0xa0;
            }
            6 if n >= 2 => {
                let (x, y) = *rng.pick(&[(0x00u8, 0x80u8), (0x00, 0xf6), (0xa0, 0x00), (0x01, 0xa0), (0xff, 0xff), (0x00, 0x00), (0xa0, 0xa0), (0x00, 0xff)]);
                b[n - 2] = x;
                b[n - 1] = y;
            }
            7 if n >= 2 => {
                b[0] = 0x00;
                b[1] = 0xa0;
            }
            _ => {}
        }
    }
    b
}

const SPECIAL_TEXTS: [&str; 44] = [
    "data:image/png;base64,iVBORw0KGgo=", "data:,", "data:image/svg+xml;utf8,<svg/>", "https://example.com/icon.png",
    "http://icon.png", "file:///etc/passwd", "javascript:alert(1)", "mailto:user@example.com", "user@example.com",
    "\u{feff}John", "John\u{feff}", " leading", "trailing ", "UPPER", "\u{202e}rtl", "null",
    "id", "name", "type", "icon", "url", "displayName", "public-key", "rk", "up", "uv", "alg", "hmac-secret", "credProtect",
    "largeBlobKey", "thirdPartyPayment", "packed", "none", "example.com", "localhost", "https://example.com/a?b=c#d",
    "a b", "a\u{0}b", "\"quoted\"", "a/b:c.d@e", "\u{feff}bom", "xn--caf-dma.example", "*.example.com", ".",
];

/// A near miss of a well-known identifier `w`: case variants, padding, one character more or less,
/// and names colliding with it under common hand-written string hashes.
pub fn identifier_variant(rng: &mut Rng, w: &str) -> String {
    let flip = |c: char| if c.is_ascii_lowercase() { c.to_ascii_uppercase() } else { c.to_ascii_lowercase() };
    match rng.below(12) {
        0 => w.to_ascii_uppercase(),
        1 => w.to_ascii_lowercase(),
        2 => {
            // capitalised words: Public-Key
            let mut up = true;
            w.chars()
                .map(|c| {
                    let r = if up { c.to_ascii_uppercase() } else { c };
                    up = !c.is_ascii_alphanumeric();
                    r
                })
                .collect()
        }
        3 => {
            let k = rng.usize(w.chars().count().max(1));
            w.chars().enumerate().map(|(i, c)| if i == k { flip(c) } else { c }).collect()
        }
        4 => format!(" {}", w),
        5 => format!("{} ", w),
        6 => format!("{}\u{0}", w),
        7 => {
            let mut t = w.to_string();
            t.pop();
            t
        }
        8 => format!("{}{}", w, w.chars().last().unwrap_or('x')),
        _ => {
            let l = crate::mutate::hash_lookalikes(w);
            if l.is_empty() {
                w.to_ascii_uppercase()
            } else {
                rng.pick(&l).clone()
            }
        }
    }
}

const IDENTIFIERS: [&str; 24] = [
    "public-key", "packed", "none", "hmac-secret", "credProtect", "largeBlobKey", "thirdPartyPayment", "rk", "up", "uv", "id", "name",
    "displayName", "icon", "type", "alg", "FIDO_2_0", "FIDO_2_1", "FIDO_2_1_PRE", "U2F_V2", "usb", "nfc", "x5c", "sig",
];

pub fn gen_text(rng: &mut Rng, n: usize) -> V {
    let lits = literals();
    if rng.chance(1, 12) {
        // a near miss of a well-known identifier or of a source literal (shorter than n is fine:
        // every oracle looks at the value actually sent)
        let w: String = if !lits.texts.is_empty() && rng.chance(1, 3) { rng.pick(&lits.texts).clone() } else { (*rng.pick(&IDENTIFIERS)).to_string() };
        let t = identifier_variant(rng, &w);
        if t.len() <= n {
            return V::text(&t);
        }
    }
    if !lits.texts.is_empty() && rng.chance(1, 4) {
        // a harvested literal alone (if it fits), as prefix, as suffix, or in the middle
        let w = rng.pick(&lits.texts);
        if w.len() <= n {
            let fill = n - w.len();
            let t = match rng.below(4) {
                0 => format!("{}{}", w, rng.ascii(fill)),
                1 => format!("{}{}", rng.ascii(fill), w),
                2 => {
                    let a = rng.usize(fill + 1);
                    format!("{}{}{}", rng.ascii(a), w, rng.ascii(fill - a))
                }
                _ => format!("{}{}", w, rng.text_bytes(fill)),
            };
            return V::text(&t);
        }
    }
    match rng.below(12) {
        0 => {
            // a text that equals (or is built from) a member name / well-known identifier
            let w = *rng.pick(&SPECIAL_TEXTS);
            let mut t = String::new();
            while t.len() + w.len() <= n {
                t.push_str(w);
            }
            while t.len() < n {
                t.push('.');
            }
            V::text(&t)
        }
        1..=5 => V::text(&rng.ascii(n)),
        _ => V::text(&rng.text_bytes(n)),
    }
}

pub fn gen_cose_ecdh(rng: &mut Rng, with_alg: bool, xl: usize, yl: usize) -> V {
    let mut m = vec![(V::int(1), V::int(2))];
    if with_alg {
        m.push((V::int(3), V::int(-25)));
    }
    m.push((V::int(-1), V::int(1)));
    m.push((V::int(-2), V::B(rng.bytes(xl))));
    m.push((V::int(-3), V::B(rng.bytes(yl))));
    V::M(m)
}

pub fn gen_param(rng: &mut Rng) -> V {
    // alphabet: ES256, EdDSA, unknown alg, known alg with unknown type, random
    let (alg, ty): (i128, String) = match rng.below(8) {
        0 | 1 => (-7, "public-key".into()),
        2 | 3 => (-8, "public-key".into()),
        4 => (
            *rng.pick(&[-257i128, -35, -36, -37, -65535, 0, 1, 23, 24, -24, -25, -9, -6, 2147483647, -2147483648, 65529, 65528, -65543, -65544, 249, 248, -263, -264, 7, 8]),
            "public-key".into(),
        ),
        5 => (*rng.pick(&[-7i128, -8]), {
            let n = rng.usize(33);
            rng.ascii(n)
        }),
        6 => (
            *rng.pick(&[-7i128, -8]),
            (*rng.pick(&[
                "public-keys", "Public-Key", "public-ke", "", "publickey", "public-key\u{0}", "public-key\u{0}\u{0}\u{0}", "public-key ", " public-key",
                "public-key\n", "\u{0}public-key", "public-key\u{feff}", "PUBLIC-KEY", "public_key", "public-key-", "public-key/",
            ]))
            .to_string(),
        ),
        _ => ((rng.u64() as i32) as i128, "public-key".into()),
    };
    V::M(vec![(V::text("alg"), V::int(alg)), (V::text("type"), V::text(&ty))])
}

pub fn gen_format(rng: &mut Rng) -> V {
    match rng.below(6) {
        0 | 1 => V::text("packed"),
        2 | 3 => V::text("none"),
        4 => V::text(*rng.pick(&["tpm", "android-key", "fido-u2f", "apple", "Packed", "none ", "", "packe", "packedd"])),
        _ => {
            let n = rng.usize(40);
            gen_text(rng, n)
        }
    }
}

pub fn gen(s: &S, g: &mut G) -> V {
    match s {
        S::UInt { max } => V::U(gen_uint(g.rng, *max)),
        S::Int { min, max } => {
            let lits = literals();
            if !lits.numbers.is_empty() && g.rng.chance(1, 6) {
                let v = *g.rng.pick(&lits.numbers) as i128;
                let v = if g.rng.bool() { -v } else { v } + (g.rng.below(3) as i128 - 1);
                if v >= *min && v <= *max {
                    return V::int(v);
                }
            }
            if g.rng.bool() {
                V::int(*g.rng.pick(&[*min, *max, 0, -1, -7, -8, 23, 24, -24, -25, 255, 256, -256, -257]))
            } else {
                let span = (*max - *min) as u128 + 1;
                V::int(*min + (g.rng.u64() as u128 % span) as i128)
            }
        }
        S::Bool => V::Bool(g.rng.bool()),
        S::Bytes { min, max } => {
            let n = gen_len(g.rng, *min, *max, g.small);
            V::B(gen_bytes_content(g.rng, n))
        }
        S::Text { max } => {
            let lits = literals();
            if !lits.texts.is_empty() && g.rng.chance(1, 16) {
                let w = g.rng.pick(&lits.texts);
                if w.len() <= *max {
                    return V::text(w);
                }
            }
            let n = gen_len(g.rng, 0, *max, g.small);
            gen_text(g.rng, n)
        }
        S::TextTrunc { max } | S::TextDropIfLonger { max } if g.lossless => {
            let n = gen_len(g.rng, 0, *max, g.small);
            gen_text(g.rng, n)
        }
        S::TextTrunc { max } => {
            // mostly around the cut, sometimes far beyond
            let n = match g.rng.below(6) {
                0 => g.rng.usize(*max + 1),
                1 => *max,
                2 => *max + 1 + g.rng.usize(4),
                3 => *max - g.rng.usize(4).min(*max),
                4 if !g.small => *max * 2 + g.rng.usize(200),
                _ => g.rng.usize(*max * 2),
            };
            gen_text(g.rng, n)
        }
        S::TextDropIfLonger { max } => {
            let n = match g.rng.below(6) {
                0 => g.rng.usize(*max + 1),
                1 => *max,
                2 => *max + 1,
                3 => *max - 1,
                4 if !g.small => *max * 2 + g.rng.usize(100),
                _ => g.rng.usize(*max * 2),
            };
            gen_text(g.rng, n)
        }
        S::TextDiscard => {
            let n = if g.small { g.rng.usize(40) } else { g.rng.usize(400) };
            gen_text(g.rng, n)
        }
        S::UEnum(vals) => V::U(*g.rng.pick(vals)),
        S::Map(m) => {
            let at_top = g.depth == 0;
            g.depth += 1;
            let mut out = Vec::new();
            let mut oi = 0;
            for mem in &m.members {
                let present = if mem.required {
                    true
                } else {
                    let bit = oi;
                    oi += 1;
                    if at_top && g.top_mask.is_some() {
                        (g.top_mask.unwrap() >> bit) & 1 == 1
                    } else if g.focus.map(|f| f.0 == m.kind).unwrap_or(false) {
                        (g.focus.unwrap().1 >> bit) & 1 == 1
                    } else {
                        match g.nested {
                            Nested::All => true,
                            Nested::OnlyRequired => false,
                            Nested::Random => g.rng.bool(),
                        }
                    }
                };
                let present = present && !(g.lossless && matches!(mem.s, S::TextDiscard));
                if present {
                    let key = if !mem.aliases.is_empty() && g.rng.chance(1, 3) {
                        V::text(mem.aliases[g.rng.usize(mem.aliases.len())])
                    } else {
                        mem.key.clone()
                    };
                    let v = gen(&mem.s, g);
                    out.push((key, v));
                }
            }
            g.depth -= 1;
            V::M(out)
        }
        S::Array { of, max } => {
            let n = match g.rng.below(6) {
                0 => 0,
                1 => 1,
                2 => *max,
                3 => max - 1,
                _ => g.rng.usize(max + 1),
            };
            let n = if g.small { n.min(3) } else { n };
            g.depth += 1;
            let was_small = g.small;
            if n > 4 {
                g.small = true;
            }
            let v = V::A((0..n).map(|_| gen(of, g)).collect());
            g.small = was_small;
            g.depth -= 1;
            v
        }
        S::Params if g.lossless => {
            let n = g.rng.usize(3);
            V::A((0..n)
                .map(|_| {
                    V::M(vec![
                        (V::text("alg"), V::int(*g.rng.pick(&[-7i128, -8]))),
                        (V::text("type"), V::text("public-key")),
                    ])
                })
                .collect())
        }
        S::Params => {
            let n = match g.rng.below(6) {
                0 => 0,
                1 => 1,
                2 => 2,
                3 => 13 + g.rng.usize(20),
                _ => g.rng.usize(8),
            };
            V::A((0..n).map(|_| gen_param(g.rng)).collect())
        }
        S::Formats => {
            let n = g.rng.usize(6);
            V::A((0..n).map(|_| gen_format(g.rng)).collect())
        }
        S::CoseEcdh => {
            let with_alg = g.lossless || g.rng.chance(3, 4);
            let xl = if g.rng.chance(3, 4) { 32 } else { g.rng.usize(33) };
            let yl = if g.rng.chance(3, 4) { 32 } else { g.rng.usize(33) };
            gen_cose_ecdh(g.rng, with_alg, xl, yl)
        }
    }
}

/// Generate one well-formed message body (canonical key order) for a command schema.
pub fn gen_message(s: &S, g: &mut G) -> V {
    for attempt in 0..8 {
        g.depth = 0;
        if attempt >= 2 {
            g.small = true;
        }
        let mut v = gen(s, g);
        if g.rng.chance(1, 6) {
            equalize(s, &mut v, g.rng);
        }
        if g.rng.chance(1, 6) {
            relate_lengths(s, &mut v, g.rng);
        }
        canonicalize(&mut v);
        if crate::cbor::encode(&v).len() + 1 <= MAX_MSG {
            return v;
        }
    }
    g.small = true;
    g.nested = Nested::OnlyRequired;
    g.depth = 0;
    let mut v = gen(s, g);
    canonicalize(&mut v);
    v
}

// ------------------------------------------------------------------------------------------------
// normalisation: what a user must read back after decoding

pub fn ref_truncate(s: &str, max: usize) -> &str {
    if s.len() <= max {
        return s;
    }
    let mut i = max;
    while !s.is_char_boundary(i) {
        i -= 1;
    }
    &s[..i]
}

pub fn ref_filter_params(list: &[V]) -> Vec<V> {
    let mut out = Vec::new();
    for e in list {
        let alg = e.get_t("alg").and_then(|a| a.as_int());
        let ty = e.get_t("type").and_then(|t| t.as_str());
        if ty == Some("public-key") && (alg == Some(-7) || alg == Some(-8)) && out.len() < 2 {
            out.push(V::M(vec![
                (V::text("alg"), V::int(alg.unwrap())),
                (V::text("type"), V::text("public-key")),
            ]));
        }
    }
    out
}

pub fn ref_filter_formats(list: &[V]) -> V {
    let mut known = Vec::new();
    let mut unknown = false;
    for e in list {
        match e.as_str() {
            Some("packed") | Some("none") => {
                if known.len() < 2 {
                    known.push(e.clone());
                }
            }
            _ => unknown = true,
        }
    }
    V::M(vec![
        (V::text("known"), V::A(known)),
        (V::text("unknown"), V::Bool(unknown)),
    ])
}

/// Expected projection of the decoded value.  None = member must be reported absent.
pub fn normalize(s: &S, v: &V) -> Option<V> {
    Some(match s {
        S::UInt { .. } | S::Int { .. } | S::Bool | S::Bytes { .. } | S::Text { .. } | S::UEnum(_) => v.clone(),
        S::TextTrunc { max } => V::text(ref_truncate(v.as_str()?, *max)),
        S::TextDropIfLonger { max } => {
            if v.as_text()?.len() > *max {
                return None;
            }
            v.clone()
        }
        S::TextDiscard => V::Bool(true),
        S::Map(m) => {
            let mut out = Vec::new();
            for mem in &m.members {
                let found = v.as_map()?.iter().find(|(k, _)| {
                    *k == mem.key || mem.aliases.iter().any(|a| *k == V::text(a))
                });
                if let Some((_, x)) = found {
                    if let Some(n) = normalize(&mem.s, x) {
                        out.push((mem.key.clone(), n));
                    }
                }
            }
            let mut r = V::M(out);
            canonicalize(&mut r);
            r
        }
        S::Array { of, .. } => V::A(v.as_arr()?.iter().filter_map(|x| normalize(of, x)).collect()),
        S::Params => V::A(ref_filter_params(v.as_arr()?)),
        S::Formats => ref_filter_formats(v.as_arr()?),
        S::CoseEcdh => V::M(vec![
            (V::int(-2), v.get_i(-2)?.clone()),
            (V::int(-3), v.get_i(-3)?.clone()),
        ]),
    })
}

// ------------------------------------------------------------------------------------------------
// tree walking (fault injection, unknown-member insertion, limit probing)

#[derive(Clone, Debug, PartialEq)]
pub enum Step {
    /// value of the i-th entry of a map
    MapVal(usize),
    /// i-th element of an array
    Elem(usize),
    /// key of the i-th entry of a map (only used to address a head for re-encoding)
    MapKey(usize),
}

pub type Path = Vec<Step>;

pub fn at<'a>(v: &'a V, path: &[Step]) -> Option<&'a V> {
    let mut cur = v;
    for st in path {
        cur = match (st, cur) {
            (Step::MapVal(i), V::M(m)) => &m.get(*i)?.1,
            (Step::MapKey(i), V::M(m)) => &m.get(*i)?.0,
            (Step::Elem(i), V::A(a)) => a.get(*i)?,
            _ => return None,
        };
    }
    Some(cur)
}

pub fn at_mut<'a>(v: &'a mut V, path: &[Step]) -> Option<&'a mut V> {
    let mut cur = v;
    for st in path {
        cur = match (st, cur) {
            (Step::MapVal(i), V::M(m)) => &mut m.get_mut(*i)?.1,
            (Step::MapKey(i), V::M(m)) => &mut m.get_mut(*i)?.0,
            (Step::Elem(i), V::A(a)) => a.get_mut(*i)?,
            _ => return None,
        };
    }
    Some(cur)
}

/// One node of a message as seen through its schema.
pub struct Node<'a> {
    pub path: Path,
    pub s: &'a S,
    /// dotted human name, e.g. "user.displayName" or "excludeList[2].id"
    pub name: String,
    /// inside a lossy container (Params entries / Formats entries): faults there are not judged
    pub lossy_ctx: bool,
}

static PARAM_ENTRY: std::sync::OnceLock<S> = std::sync::OnceLock::new();
static FORMAT_ENTRY: S = S::Text { max: UNB };

pub fn param_entry() -> &'static S {
    PARAM_ENTRY.get_or_init(|| {
        S::Map(MapS {
            kind: "param",
            extensible: true,
            members: vec![
                mt("alg", S::Int { min: -(1 << 31), max: (1 << 31) - 1 }, true),
                mt("type", S::Text { max: 32 }, true),
            ],
        })
    })
}

static COSE_MAP: std::sync::OnceLock<S> = std::sync::OnceLock::new();
pub fn cose_map() -> &'static S {
    COSE_MAP.get_or_init(|| {
        S::Map(MapS {
            kind: "cose",
            extensible: false,
            members: vec![
                mi(1, "kty", S::UEnum(vec![2]), true),
                mi(3, "alg", S::Int { min: -25, max: -25 }, false),
                mi(-1, "crv", S::UEnum(vec![1]), true),
                mi(-2, "x", S::Bytes { min: 0, max: 32 }, true),
                mi(-3, "y", S::Bytes { min: 0, max: 32 }, true),
            ],
        })
    })
}

/// Enumerate every node (containers and leaves) of `v` according to schema `s`.
pub fn walk<'a>(s: &'a S, v: &V, path: &mut Path, name: &str, lossy: bool, out: &mut Vec<Node<'a>>) {
    out.push(Node {
        path: path.clone(),
        s,
        name: name.to_string(),
        lossy_ctx: lossy,
    });
    match (s, v) {
        (S::Map(ms), V::M(entries)) => {
            for (i, (k, x)) in entries.iter().enumerate() {
                if let Some(mem) = ms
                    .members
                    .iter()
                    .find(|m| m.key == *k || m.aliases.iter().any(|a| *k == V::text(a)))
                {
                    path.push(Step::MapVal(i));
                    let nm = if name.is_empty() {
                        mem.name.to_string()
                    } else {
                        format!("{}.{}", name, mem.name)
                    };
                    walk(&mem.s, x, path, &nm, lossy, out);
                    path.pop();
                }
            }
        }
        (S::Array { of, .. }, V::A(items)) => {
            for (i, x) in items.iter().enumerate() {
                path.push(Step::Elem(i));
                walk(of, x, path, &format!("{}[{}]", name, i), lossy, out);
                path.pop();
            }
        }
        (S::Params, V::A(items)) => {
            for (i, x) in items.iter().enumerate() {
                path.push(Step::Elem(i));
                walk(param_entry(), x, path, &format!("{}[{}]", name, i), true, out);
                path.pop();
            }
        }
        (S::Formats, V::A(items)) => {
            for (i, x) in items.iter().enumerate() {
                path.push(Step::Elem(i));
                walk(&FORMAT_ENTRY, x, path, &format!("{}[{}]", name, i), true, out);
                path.pop();
            }
        }
        (S::CoseEcdh, V::M(_)) => {
            // present the COSE key as a closed integer-keyed map
            let cs = cose_map();
            if let (S::Map(ms), V::M(entries)) = (cs, v) {
                for (i, (k, x)) in entries.iter().enumerate() {
                    if let Some(mem) = ms.members.iter().find(|m| m.key == *k) {
                        path.push(Step::MapVal(i));
                        walk(&mem.s, x, path, &format!("{}.{}", name, mem.name), lossy, out);
                        path.pop();
                    }
                }
            }
        }
        _ => {}
    }
}

pub fn nodes<'a>(s: &'a S, v: &V) -> Vec<Node<'a>> {
    let mut out = Vec::new();
    walk(s, v, &mut Vec::new(), "", false, &mut out);
    out
}

/// The map schema to use for a node when treating it as a map (COSE keys included).
pub fn as_map_schema(s: &S) -> Option<&MapS> {
    match s {
        S::Map(m) => Some(m),
        S::CoseEcdh => match cose_map() {
            S::Map(m) => Some(m),
            _ => None,
        },
        _ => None,
    }
}

/// Type class of a CBOR value (for wrong-type substitution).
pub fn major_class(v: &V) -> &'static str {
    match v {
        V::U(_) => "unsigned",
        V::N(_) => "negative",
        V::B(_) => "bytes",
        V::T(_) => "text",
        V::A(_) => "array",
        V::M(_) => "map",
        V::Bool(_) => "bool",
        _ => "other",
    }
}

/// Which CBOR type classes does a schema node accept?
pub fn accepted_classes(s: &S) -> &'static [&'static str] {
    match s {
        S::UInt { .. } | S::UEnum(_) => &["unsigned"],
        S::Int { .. } => &["unsigned", "negative"],
        S::Bool => &["bool"],
        S::Bytes { .. } => &["bytes"],
        S::Text { .. } | S::TextTrunc { .. } | S::TextDropIfLonger { .. } | S::TextDiscard => &["text"],
        S::Map(_) | S::CoseEcdh => &["map"],
        S::Array { .. } | S::Params | S::Formats => &["array"],
    }
}

/// Replace the value of the member with dotted name `name` (as produced by `walk`).
pub fn set_by_name(s: &S, v: &mut V, name: &str, x: V) -> bool {
    let path = match nodes(s, v).into_iter().find(|n| n.name == name) {
        Some(n) => n.path,
        None => return false,
    };
    match at_mut(v, &path) {
        Some(slot) => {
            *slot = x;
            true
        }
        None => false,
    }
}

/// Is value `v` within the declared limit of schema node `s`?  (None: not a bounded leaf.)
pub fn within_limit(s: &S, v: &V) -> Option<bool> {
    Some(match (s, v) {
        (S::Bytes { min, max }, V::B(b)) => b.len() >= *min && b.len() <= *max,
        (S::Text { max }, V::T(b)) => b.len() <= *max,
        (S::TextTrunc { .. }, V::T(_)) | (S::TextDropIfLonger { .. }, V::T(_)) | (S::TextDiscard, V::T(_)) => true,
        (S::UInt { max }, V::U(n)) => n <= max,
        (S::UInt { .. }, V::N(_)) => false,
        (S::UEnum(vals), V::U(n)) => vals.contains(n),
        (S::Int { min, max }, x) => {
            let i = x.as_int()?;
            i >= *min && i <= *max
        }
        (S::Array { max, .. }, V::A(a)) => a.len() <= *max,
        _ => return None,
    })
}

/// Make an integer member a function of the LENGTH of a sized member of the same message (value
/// relations such as length < len(set), offset + len(set) crossing 2^32, getKeyAgreement-style
/// counters equal to a list length): len − 1, len, len + 1, max − len, max − len + 1; half of the
/// time the integer is also paired with a zero in another integer member (offset 0).
pub fn relate_lengths(s: &S, v: &mut V, rng: &mut Rng) {
    let ns = nodes(s, v);
    let ints: Vec<(Path, u64)> = ns.iter().filter_map(|n| match n.s { S::UInt { max } => Some((n.path.clone(), *max)), _ => None }).collect();
    let sized: Vec<usize> = ns
        .iter()
        .filter_map(|n| match (n.s, at(v, &n.path)) {
            (S::Bytes { .. }, Some(V::B(b))) | (S::Text { .. }, Some(V::T(b))) => Some(b.len()),
            (S::Array { .. }, Some(V::A(a))) => Some(a.len()),
            _ => None,
        })
        .collect();
    if ints.is_empty() || sized.is_empty() {
        return;
    }
    let (path, max) = ints[rng.usize(ints.len())].clone();
    let len = sized[rng.usize(sized.len())] as u64;
    let val = match rng.below(5) {
        0 => len.saturating_sub(1),
        1 => len,
        2 => len + 1,
        3 => max.saturating_sub(len),
        _ => max.saturating_sub(len).saturating_add(1),
    };
    if val > max {
        return;
    }
    if let Some(slot) = at_mut(v, &path) {
        *slot = V::U(val);
    }
    if rng.bool() {
        let others: Vec<&(Path, u64)> = ints.iter().filter(|i| i.0 != path).collect();
        if !others.is_empty() {
            let o = others[rng.usize(others.len())];
            if let Some(slot) = at_mut(v, &o.0) {
                *slot = V::U(0);
            }
        }
    }
}

/// Make two same-typed leaf members carry the SAME value (value relations such as
/// name == displayName, pinUvAuthParam == clientDataHash), respecting the receiving member's limit.
pub fn equalize(s: &S, v: &mut V, rng: &mut Rng) {
    let ns = nodes(s, v);
    let leaves: Vec<(Path, bool, usize)> = ns
        .iter()
        .filter_map(|n| match n.s {
            S::Bytes { max, .. } => Some((n.path.clone(), true, *max)),
            S::Text { max } | S::TextTrunc { max } | S::TextDropIfLonger { max } => Some((n.path.clone(), false, *max)),
            _ => None,
        })
        .collect();
    if leaves.len() < 2 {
        return;
    }
    let a = &leaves[rng.usize(leaves.len())];
    let cands: Vec<&(Path, bool, usize)> = leaves.iter().filter(|l| l.1 == a.1 && l.0 != a.0).collect();
    if cands.is_empty() {
        return;
    }
    let b = cands[rng.usize(cands.len())];
    let val = match at(v, &a.0) {
        Some(x) => x.clone(),
        None => return,
    };
    let len = match &val {
        V::B(x) | V::T(x) => x.len(),
        _ => return,
    };
    // only where the copy is within the receiving member's limit and (for exact-length members) legal
    if let Some(S::Bytes { min, .. }) = ns.iter().find(|n| n.path == b.0).map(|n| n.s) {
        if len < *min {
            return;
        }
    }
    if len > b.2 {
        return;
    }
    if let Some(slot) = at_mut(v, &b.0) {
        *slot = val;
    }
}
