//! Recording mock authenticator (C10, C19): every handler appends (name, Debug of its argument)
//! to a log and returns a per-handler unique sentinel, or a programmed error.

use ctap_types::ctap2::{client_pin, credential_management, get_assertion, get_info, large_blobs, make_credential};
use ctap_types::{ctap1, ctap2};

pub static VERSION_CALLS: std::sync::atomic::AtomicU64 = std::sync::atomic::AtomicU64::new(0);
pub const VERSION_SENTINEL: [u8; 6] = *b"VHMOCK";

#[derive(Default)]
pub struct Mock {
    pub log: Vec<(&'static str, String)>,
    pub fail2: Option<ctap2::Error>,
    pub fail1: Option<ctap1::Error>,
}

fn ga_sentinel(n: u32) -> get_assertion::Response {
    let mut r = get_assertion::ResponseBuilder {
        credential: ctap_types::webauthn::PublicKeyCredentialDescriptor {
            id: ctap_types::Bytes::from_slice(&[n as u8]).unwrap(),
            key_type: ctap_types::String::from("public-key"),
        },
        auth_data: ctap_types::Bytes::from_slice(&[1, 2, 3]).unwrap(),
        signature: ctap_types::Bytes::from_slice(&[4, 5]).unwrap(),
    }
    .build();
    r.number_of_credentials = Some(n);
    // every optional member set to a non-default value: a dispatcher that touches the handler's
    // result in any member is seen
    r.user = Some(ctap_types::webauthn::PublicKeyCredentialUserEntity::from(ctap_types::Bytes::from_slice(&[n as u8, 7]).unwrap()));
    r.user_selected = Some(true);
    r.large_blob_key = Some(ctap_types::ByteArray::new([n as u8; 32]));
    r.ep_att = Some(true);
    r.att_stmt = Some(ctap2::AttestationStatement::None(ctap2::NoneAttestationStatement {}));
    r
}

pub fn sentinel_mc() -> make_credential::Response {
    let mut r = make_credential::ResponseBuilder {
        fmt: ctap2::AttestationStatementFormat::Packed,
        auth_data: ctap_types::Bytes::from_slice(&[0x11; 5]).unwrap(),
    }
    .build();
    r.ep_att = Some(true);
    r.att_stmt = Some(ctap2::AttestationStatement::Packed(ctap2::PackedAttestationStatement {
        alg: -7,
        sig: ctap_types::Bytes::from_slice(&[3; 9]).unwrap(),
        x5c: None,
    }));
    r.large_blob_key = Some(ctap_types::ByteArray::new([0x4c; 32]));
    r
}
pub fn sentinel_ga() -> get_assertion::Response {
    ga_sentinel(11)
}
pub fn sentinel_gna() -> get_assertion::Response {
    ga_sentinel(22)
}
pub fn sentinel_cp() -> client_pin::Response {
    let mut r = client_pin::Response::default();
    r.retries = Some(33);
    r.pin_token = Some(ctap_types::Bytes::from_slice(&[0x70; 32]).unwrap());
    r.power_cycle_state = Some(true);
    r.uv_retries = Some(3);
    r
}
pub fn sentinel_cm() -> credential_management::Response {
    let mut r = credential_management::Response::default();
    r.total_rps = Some(44);
    r.existing_resident_credentials_count = Some(1);
    r.max_possible_remaining_residential_credentials_count = Some(2);
    r.rp_id_hash = Some(ctap_types::ByteArray::new([0x52; 32]));
    r.total_credentials = Some(5);
    r.cred_protect = Some(credential_management::CredentialProtectionPolicy::Required);
    r.large_blob_key = Some(ctap_types::ByteArray::new([0x4b; 32]));
    r
}
pub fn sentinel_lb() -> large_blobs::Response {
    let mut r = large_blobs::Response::default();
    // filled to capacity with a pattern (capacity 0 without large-blobs): a dispatcher that cuts,
    // pads or rewrites the handler's answer shows
    let mut cfg = ctap_types::Bytes::new();
    let mut i = 0u32;
    while cfg.push((i % 251) as u8).is_ok() {
        i += 1;
    }
    r.config = Some(cfg);
    r
}
pub fn sentinel_gi() -> get_info::Response {
    let mut r = get_info::Response::default();
    r.max_msg_size = Some(55);
    r.max_creds_in_list = Some(10);
    r.max_cred_id_length = Some(255);
    r.max_serialized_large_blob_array = Some(1024);
    r
}
pub fn sentinel_reg() -> ctap1::register::Response {
    ctap1::register::Response {
        header_byte: 5,
        public_key: ctap_types::Bytes::from_slice(&[0x04; 65]).unwrap(),
        key_handle: ctap_types::Bytes::from_slice(&[6; 6]).unwrap(),
        attestation_certificate: ctap_types::Bytes::from_slice(&[7; 7]).unwrap(),
        signature: ctap_types::Bytes::from_slice(&[8; 8]).unwrap(),
    }
}
pub fn sentinel_auth() -> ctap1::authenticate::Response {
    ctap1::authenticate::Response {
        user_presence: 1,
        count: 0x0a0b0c0d,
        signature: ctap_types::Bytes::from_slice(&[9; 9]).unwrap(),
    }
}

impl Mock {
    fn res2<T>(&self, v: T) -> ctap2::Result<T> {
        match self.fail2 {
            Some(e) => Err(e),
            None => Ok(v),
        }
    }
}

impl ctap2::Authenticator for Mock {
    fn get_info(&mut self) -> get_info::Response {
        self.log.push(("get_info", String::new()));
        sentinel_gi()
    }
    fn make_credential(&mut self, request: &make_credential::Request) -> ctap2::Result<make_credential::Response> {
        self.log.push(("make_credential", format!("{:?}", request)));
        self.res2(sentinel_mc())
    }
    fn get_assertion(&mut self, request: &get_assertion::Request) -> ctap2::Result<get_assertion::Response> {
        self.log.push(("get_assertion", format!("{:?}", request)));
        self.res2(sentinel_ga())
    }
    fn get_next_assertion(&mut self) -> ctap2::Result<get_assertion::Response> {
        self.log.push(("get_next_assertion", String::new()));
        self.res2(sentinel_gna())
    }
    fn reset(&mut self) -> ctap2::Result<()> {
        self.log.push(("reset", String::new()));
        self.res2(())
    }
    fn client_pin(&mut self, request: &client_pin::Request) -> ctap2::Result<client_pin::Response> {
        self.log.push(("client_pin", format!("{:?}", request)));
        self.res2(sentinel_cp())
    }
    fn credential_management(&mut self, request: &credential_management::Request) -> ctap2::Result<credential_management::Response> {
        self.log.push(("credential_management", format!("{:?}", request)));
        self.res2(sentinel_cm())
    }
    fn selection(&mut self) -> ctap2::Result<()> {
        self.log.push(("selection", String::new()));
        self.res2(())
    }
    fn vendor(&mut self, op: ctap2::VendorOperation) -> ctap2::Result<()> {
        self.log.push(("vendor", format!("{:?}", op)));
        self.res2(())
    }
    fn large_blobs(&mut self, request: &large_blobs::Request) -> ctap2::Result<large_blobs::Response> {
        self.log.push(("large_blobs", format!("{:?}", request)));
        self.res2(sentinel_lb())
    }
}

impl ctap1::Authenticator for Mock {
    fn register(&mut self, request: &ctap1::register::Request<'_>) -> ctap1::Result<ctap1::register::Response> {
        self.log.push(("register", format!("{:?}", request)));
        match self.fail1 {
            Some(e) => Err(e),
            None => Ok(sentinel_reg()),
        }
    }
    fn authenticate(&mut self, request: &ctap1::authenticate::Request<'_>) -> ctap1::Result<ctap1::authenticate::Response> {
        self.log.push(("authenticate", format!("{:?}", request)));
        match self.fail1 {
            Some(e) => Err(e),
            None => Ok(sentinel_auth()),
        }
    }
    fn version() -> [u8; 6] {
        VERSION_CALLS.fetch_add(1, std::sync::atomic::Ordering::Relaxed);
        VERSION_SENTINEL
    }
}

/// An authenticator that does not implement the large-blobs extension (default method).
#[derive(Default)]
pub struct MockNoLb {
    pub inner: Mock,
}

impl ctap2::Authenticator for MockNoLb {
    fn get_info(&mut self) -> get_info::Response {
        self.inner.get_info()
    }
    fn make_credential(&mut self, r: &make_credential::Request) -> ctap2::Result<make_credential::Response> {
        self.inner.make_credential(r)
    }
    fn get_assertion(&mut self, r: &get_assertion::Request) -> ctap2::Result<get_assertion::Response> {
        self.inner.get_assertion(r)
    }
    fn get_next_assertion(&mut self) -> ctap2::Result<get_assertion::Response> {
        self.inner.get_next_assertion()
    }
    fn reset(&mut self) -> ctap2::Result<()> {
        self.inner.reset()
    }
    fn client_pin(&mut self, r: &client_pin::Request) -> ctap2::Result<client_pin::Response> {
        self.inner.client_pin(r)
    }
    fn credential_management(&mut self, r: &credential_management::Request) -> ctap2::Result<credential_management::Response> {
        self.inner.credential_management(r)
    }
    fn selection(&mut self) -> ctap2::Result<()> {
        self.inner.selection()
    }
    fn vendor(&mut self, op: ctap2::VendorOperation) -> ctap2::Result<()> {
        self.inner.vendor(op)
    }
}

/// An authenticator that overrides the *provided* dispatch methods: the generic `Rpc::call` must
/// reach these overrides for every request, not a private copy of the default dispatch.
#[derive(Default)]
pub struct MockOverride {
    pub inner: Mock,
    pub dispatched2: u64,
    pub dispatched1: u64,
}

impl ctap2::Authenticator for MockOverride {
    fn get_info(&mut self) -> get_info::Response {
        self.inner.get_info()
    }
    fn make_credential(&mut self, r: &make_credential::Request) -> ctap2::Result<make_credential::Response> {
        self.inner.make_credential(r)
    }
    fn get_assertion(&mut self, r: &get_assertion::Request) -> ctap2::Result<get_assertion::Response> {
        self.inner.get_assertion(r)
    }
    fn get_next_assertion(&mut self) -> ctap2::Result<get_assertion::Response> {
        self.inner.get_next_assertion()
    }
    fn reset(&mut self) -> ctap2::Result<()> {
        self.inner.reset()
    }
    fn client_pin(&mut self, r: &client_pin::Request) -> ctap2::Result<client_pin::Response> {
        self.inner.client_pin(r)
    }
    fn credential_management(&mut self, r: &credential_management::Request) -> ctap2::Result<credential_management::Response> {
        self.inner.credential_management(r)
    }
    fn selection(&mut self) -> ctap2::Result<()> {
        self.inner.selection()
    }
    fn vendor(&mut self, op: ctap2::VendorOperation) -> ctap2::Result<()> {
        self.inner.vendor(op)
    }
    fn large_blobs(&mut self, r: &large_blobs::Request) -> ctap2::Result<large_blobs::Response> {
        self.inner.large_blobs(r)
    }
    fn call_ctap2(&mut self, _request: &ctap2::Request) -> ctap2::Result<ctap2::Response> {
        self.dispatched2 += 1;
        Err(ctap2::Error::VendorFirst)
    }
}

impl ctap1::Authenticator for MockOverride {
    fn register(&mut self, r: &ctap1::register::Request<'_>) -> ctap1::Result<ctap1::register::Response> {
        ctap1::Authenticator::register(&mut self.inner, r)
    }
    fn authenticate(&mut self, r: &ctap1::authenticate::Request<'_>) -> ctap1::Result<ctap1::authenticate::Response> {
        ctap1::Authenticator::authenticate(&mut self.inner, r)
    }
    fn call_ctap1(&mut self, _request: &ctap1::Request<'_>) -> ctap1::Result<ctap1::Response> {
        self.dispatched1 += 1;
        Err(ctap1::Error::UnspecifiedCheckingError)
    }
}

/// What the dispatcher must do for a CTAP2 request: (handler name, expected Ok response).
pub fn expected2(req: &ctap2::Request) -> Option<(&'static str, String, ctap2::Response)> {
    use ctap2::Request as Q;
    use ctap2::Response as R;
    Some(match req {
        Q::MakeCredential(r) => ("make_credential", format!("{:?}", r), R::MakeCredential(sentinel_mc())),
        Q::GetAssertion(r) => ("get_assertion", format!("{:?}", r), R::GetAssertion(sentinel_ga())),
        Q::GetNextAssertion => ("get_next_assertion", String::new(), R::GetNextAssertion(sentinel_gna())),
        Q::GetInfo => ("get_info", String::new(), R::GetInfo(sentinel_gi())),
        Q::ClientPin(r) => ("client_pin", format!("{:?}", r), R::ClientPin(sentinel_cp())),
        Q::Reset => ("reset", String::new(), R::Reset),
        Q::CredentialManagement(r) => ("credential_management", format!("{:?}", r), R::CredentialManagement(sentinel_cm())),
        Q::Selection => ("selection", String::new(), R::Selection),
        Q::LargeBlobs(r) => ("large_blobs", format!("{:?}", r), R::LargeBlobs(sentinel_lb())),
        Q::Vendor(op) => ("vendor", format!("{:?}", op), R::Vendor),
        _ => return None,
    })
}
