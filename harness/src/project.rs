//! Projections  Rust value -> model value, written the way a *user* of the crate reads a decoded
//! request: by field NAME.  Field `client_data_hash` is what the specification calls
//! clientDataHash (key 1 of MakeCredential) and so on.  Only width-agnostic conversions are used
//! (`as i128`, slicing, `.as_str()`), no capacity or integer width is named, so that a change of a
//! capacity, width, order or cfg-gate in the crate still compiles here and is judged.

use crate::cbor::{canonical, V};
use ctap_types::ctap2::{
    self, client_pin, credential_management, get_assertion, large_blobs, make_credential,
};
use ctap_types::webauthn::*;

macro_rules! int {
    ($e:expr) => {
        V::int(($e) as i128)
    };
}

fn bytes(b: &[u8]) -> V {
    V::B(b.to_vec())
}

pub fn p_rp(rp: &PublicKeyCredentialRpEntity) -> V {
    let mut m = vec![(V::text("id"), V::text(rp.id.as_str()))];
    if let Some(n) = &rp.name {
        m.push((V::text("name"), V::text(n.as_str())));
    }
    if rp.icon.is_some() {
        m.push((V::text("icon"), V::Bool(true)));
    }
    canonical(V::M(m))
}

pub fn p_user(u: &PublicKeyCredentialUserEntity) -> V {
    let mut m = vec![(V::text("id"), bytes(&u.id[..]))];
    if let Some(x) = &u.icon {
        m.push((V::text("icon"), V::text(x.as_str())));
    }
    if let Some(x) = &u.name {
        m.push((V::text("name"), V::text(x.as_str())));
    }
    if let Some(x) = &u.display_name {
        m.push((V::text("displayName"), V::text(x.as_str())));
    }
    canonical(V::M(m))
}

pub fn p_descref(d: &PublicKeyCredentialDescriptorRef) -> V {
    canonical(V::M(vec![
        (V::text("id"), bytes(&d.id[..])),
        (V::text("type"), V::text(d.key_type)),
    ]))
}

pub fn p_desc(d: &PublicKeyCredentialDescriptor) -> V {
    canonical(V::M(vec![
        (V::text("id"), bytes(&d.id[..])),
        (V::text("type"), V::text(d.key_type.as_str())),
    ]))
}

pub fn p_param(p: &PublicKeyCredentialParameters) -> V {
    canonical(V::M(vec![
        (V::text("alg"), int!(p.alg)),
        (V::text("type"), V::text(p.key_type.as_str())),
    ]))
}

pub fn p_filtered_params(p: &FilteredPublicKeyCredentialParameters) -> V {
    V::A(p.0
        .iter()
        .map(|k| {
            V::M(vec![
                (V::text("alg"), int!(k.alg)),
                (V::text("type"), V::text("public-key")),
            ])
        })
        .collect())
}

pub fn p_options(o: &ctap2::AuthenticatorOptions) -> V {
    let mut m = Vec::new();
    if let Some(x) = o.rk {
        m.push((V::text("rk"), V::Bool(x)));
    }
    if let Some(x) = o.up {
        m.push((V::text("up"), V::Bool(x)));
    }
    if let Some(x) = o.uv {
        m.push((V::text("uv"), V::Bool(x)));
    }
    canonical(V::M(m))
}

pub fn p_formats(f: &ctap2::AttestationFormatsPreference) -> V {
    V::M(vec![
        (
            V::text("known"),
            V::A(f.known_formats()
                .iter()
                .map(|x| V::text(<&str>::from(*x)))
                .collect()),
        ),
        (V::text("unknown"), V::Bool(f.includes_unknown_formats())),
    ])
}

pub fn p_mc_extensions(e: &make_credential::Extensions) -> V {
    let mut m = Vec::new();
    if let Some(x) = e.cred_protect {
        m.push((V::text("credProtect"), int!(x)));
    }
    if let Some(x) = e.hmac_secret {
        m.push((V::text("hmac-secret"), V::Bool(x)));
    }
    if let Some(x) = e.large_blob_key {
        m.push((V::text("largeBlobKey"), V::Bool(x)));
    }
    #[cfg(feature = "tpp")]
    if let Some(x) = e.third_party_payment {
        m.push((V::text("thirdPartyPayment"), V::Bool(x)));
    }
    canonical(V::M(m))
}

pub fn p_ecdh(k: &cosey::EcdhEsHkdf256PublicKey) -> V {
    V::M(vec![
        (V::int(-2), bytes(&k.x[..])),
        (V::int(-3), bytes(&k.y[..])),
    ])
}

pub fn p_hmac_secret_input(h: &get_assertion::HmacSecretInput) -> V {
    let mut m = vec![
        (V::int(1), p_ecdh(&h.key_agreement)),
        (V::int(2), bytes(&h.salt_enc[..])),
        (V::int(3), bytes(&h.salt_auth[..])),
    ];
    if let Some(x) = h.pin_protocol {
        m.push((V::int(4), int!(x)));
    }
    V::M(m)
}

pub fn p_ga_extensions(e: &get_assertion::ExtensionsInput) -> V {
    let mut m = Vec::new();
    if let Some(x) = &e.hmac_secret {
        m.push((V::text("hmac-secret"), p_hmac_secret_input(x)));
    }
    if let Some(x) = e.large_blob_key {
        m.push((V::text("largeBlobKey"), V::Bool(x)));
    }
    #[cfg(feature = "tpp")]
    if let Some(x) = e.third_party_payment {
        m.push((V::text("thirdPartyPayment"), V::Bool(x)));
    }
    canonical(V::M(m))
}

pub fn p_mc(r: &make_credential::Request) -> V {
    let mut m = vec![
        (V::int(1), bytes(&r.client_data_hash[..])),
        (V::int(2), p_rp(&r.rp)),
        (V::int(3), p_user(&r.user)),
        (V::int(4), p_filtered_params(&r.pub_key_cred_params)),
    ];
    if let Some(x) = &r.exclude_list {
        m.push((V::int(5), V::A(x.iter().map(p_descref).collect())));
    }
    if let Some(x) = &r.extensions {
        m.push((V::int(6), p_mc_extensions(x)));
    }
    if let Some(x) = &r.options {
        m.push((V::int(7), p_options(x)));
    }
    if let Some(x) = &r.pin_auth {
        m.push((V::int(8), bytes(&x[..])));
    }
    if let Some(x) = r.pin_protocol {
        m.push((V::int(9), int!(x)));
    }
    if let Some(x) = r.enterprise_attestation {
        m.push((V::int(10), int!(x)));
    }
    if let Some(x) = &r.attestation_formats_preference {
        m.push((V::int(11), p_formats(x)));
    }
    V::M(m)
}

pub fn p_ga(r: &get_assertion::Request) -> V {
    let mut m = vec![
        (V::int(1), V::text(r.rp_id)),
        (V::int(2), bytes(&r.client_data_hash[..])),
    ];
    if let Some(x) = &r.allow_list {
        m.push((V::int(3), V::A(x.iter().map(p_descref).collect())));
    }
    if let Some(x) = &r.extensions {
        m.push((V::int(4), p_ga_extensions(x)));
    }
    if let Some(x) = &r.options {
        m.push((V::int(5), p_options(x)));
    }
    if let Some(x) = &r.pin_auth {
        m.push((V::int(6), bytes(&x[..])));
    }
    if let Some(x) = r.pin_protocol {
        m.push((V::int(7), int!(x)));
    }
    if let Some(x) = r.enterprise_attestation {
        m.push((V::int(8), int!(x)));
    }
    if let Some(x) = &r.attestation_formats_preference {
        m.push((V::int(9), p_formats(x)));
    }
    V::M(m)
}

/// PIN sub-command names -> numbers of the CTAP 2.1 table (a user matches on the names).
pub fn pin_subcommand_number(s: &client_pin::PinV1Subcommand) -> i128 {
    use client_pin::PinV1Subcommand::*;
    match s {
        GetRetries => 1,
        GetKeyAgreement => 2,
        SetPin => 3,
        ChangePin => 4,
        GetPinToken => 5,
        GetPinUvAuthTokenUsingUvWithPermissions => 6,
        GetUVRetries => 7,
        GetPinUvAuthTokenUsingPinWithPermissions => 9,
        _ => -1000,
    }
}

pub fn cm_subcommand_number(s: &credential_management::Subcommand) -> i128 {
    use credential_management::Subcommand::*;
    match s {
        GetCredsMetadata => 1,
        EnumerateRpsBegin => 2,
        EnumerateRpsGetNextRp => 3,
        EnumerateCredentialsBegin => 4,
        EnumerateCredentialsGetNextCredential => 5,
        DeleteCredential => 6,
        UpdateUserInformation => 7,
        _ => -1000,
    }
}

pub fn p_cp(r: &client_pin::Request) -> V {
    let mut m = vec![
        (V::int(1), int!(r.pin_protocol)),
        (V::int(2), V::int(pin_subcommand_number(&r.sub_command))),
    ];
    if let Some(x) = &r.key_agreement {
        m.push((V::int(3), p_ecdh(x)));
    }
    if let Some(x) = &r.pin_auth {
        m.push((V::int(4), bytes(&x[..])));
    }
    if let Some(x) = &r.new_pin_enc {
        m.push((V::int(5), bytes(&x[..])));
    }
    if let Some(x) = &r.pin_hash_enc {
        m.push((V::int(6), bytes(&x[..])));
    }
    if let Some(x) = r.permissions {
        m.push((V::int(9), int!(x)));
    }
    if let Some(x) = r.rp_id {
        m.push((V::int(10), V::text(x)));
    }
    V::M(m)
}

pub fn p_cm_params(p: &credential_management::SubcommandParameters) -> V {
    let mut m = Vec::new();
    if let Some(x) = p.rp_id_hash {
        m.push((V::int(1), bytes(&x[..])));
    }
    if let Some(x) = &p.credential_id {
        m.push((V::int(2), p_descref(x)));
    }
    if let Some(x) = &p.user {
        m.push((V::int(3), p_user(x)));
    }
    V::M(m)
}

pub fn p_cm(r: &credential_management::Request) -> V {
    let mut m = vec![(V::int(1), V::int(cm_subcommand_number(&r.sub_command)))];
    if let Some(x) = &r.sub_command_params {
        m.push((V::int(2), p_cm_params(x)));
    }
    if let Some(x) = r.pin_protocol {
        m.push((V::int(3), int!(x)));
    }
    if let Some(x) = &r.pin_auth {
        m.push((V::int(4), bytes(&x[..])));
    }
    V::M(m)
}

pub fn p_lb(r: &large_blobs::Request) -> V {
    let mut m = Vec::new();
    if let Some(x) = r.get {
        m.push((V::int(1), int!(x)));
    }
    if let Some(x) = &r.set {
        m.push((V::int(2), bytes(&x[..])));
    }
    m.push((V::int(3), int!(r.offset)));
    if let Some(x) = r.length {
        m.push((V::int(4), int!(x)));
    }
    if let Some(x) = &r.pin_uv_auth_param {
        m.push((V::int(5), bytes(&x[..])));
    }
    if let Some(x) = r.pin_uv_auth_protocol {
        m.push((V::int(6), int!(x)));
    }
    V::M(m)
}

/// (variant name, projected parameters)
pub fn p_request(r: &ctap2::Request) -> (&'static str, V) {
    use ctap2::Request::*;
    match r {
        MakeCredential(x) => ("MakeCredential", p_mc(x)),
        GetAssertion(x) => ("GetAssertion", p_ga(x)),
        GetNextAssertion => ("GetNextAssertion", V::Null),
        GetInfo => ("GetInfo", V::Null),
        ClientPin(x) => ("ClientPin", p_cp(x)),
        Reset => ("Reset", V::Null),
        CredentialManagement(x) => ("CredentialManagement", p_cm(x)),
        Selection => ("Selection", V::Null),
        LargeBlobs(x) => ("LargeBlobs", p_lb(x)),
        Vendor(op) => ("Vendor", V::int(u8::from(*op) as i128)),
        _ => ("<unknown variant>", V::Null),
    }
}

pub fn variant_for_cmd(cmd: u8) -> &'static str {
    match cmd {
        0x01 => "MakeCredential",
        0x02 => "GetAssertion",
        0x04 => "GetInfo",
        0x06 => "ClientPin",
        0x07 => "Reset",
        0x08 => "GetNextAssertion",
        0x0a | 0x41 => "CredentialManagement",
        0x0b => "Selection",
        0x0c => "LargeBlobs",
        0x42..=0x7f => "Vendor",
        _ => "<none>",
    }
}

/// Address ranges of every borrowed field (observation for the zero-copy anchor).
pub fn borrowed_ranges(r: &ctap2::Request) -> Vec<(usize, usize)> {
    fn rg(b: &[u8]) -> (usize, usize) {
        (b.as_ptr() as usize, b.len())
    }
    let mut out = Vec::new();
    use ctap2::Request::*;
    match r {
        MakeCredential(x) => {
            out.push(rg(&x.client_data_hash[..]));
            if let Some(l) = &x.exclude_list {
                for d in l.iter() {
                    out.push(rg(&d.id[..]));
                    out.push(rg(d.key_type.as_bytes()));
                }
            }
            if let Some(p) = &x.pin_auth {
                out.push(rg(&p[..]));
            }
        }
        GetAssertion(x) => {
            out.push(rg(x.rp_id.as_bytes()));
            out.push(rg(&x.client_data_hash[..]));
            if let Some(l) = &x.allow_list {
                for d in l.iter() {
                    out.push(rg(&d.id[..]));
                    out.push(rg(d.key_type.as_bytes()));
                }
            }
            if let Some(p) = &x.pin_auth {
                out.push(rg(&p[..]));
            }
        }
        ClientPin(x) => {
            for p in [&x.pin_auth, &x.new_pin_enc, &x.pin_hash_enc].into_iter().flatten() {
                out.push(rg(&p[..]));
            }
            if let Some(s) = x.rp_id {
                out.push(rg(s.as_bytes()));
            }
        }
        CredentialManagement(x) => {
            if let Some(p) = &x.sub_command_params {
                if let Some(h) = p.rp_id_hash {
                    out.push(rg(&h[..]));
                }
                if let Some(d) = &p.credential_id {
                    out.push(rg(&d.id[..]));
                    out.push(rg(d.key_type.as_bytes()));
                }
            }
            if let Some(p) = &x.pin_auth {
                out.push(rg(&p[..]));
            }
        }
        LargeBlobs(x) => {
            for p in [&x.set, &x.pin_uv_auth_param].into_iter().flatten() {
                out.push(rg(&p[..]));
            }
        }
        _ => {}
    }
    out
}

/// Every text field of a decoded request, as raw bytes (to re-validate UTF-8 independently).
pub fn text_fields(r: &ctap2::Request) -> Vec<(&'static str, Vec<u8>, usize)> {
    // (name, bytes, capacity or usize::MAX)
    let mut out: Vec<(&'static str, Vec<u8>, usize)> = Vec::new();
    fn user(u: &PublicKeyCredentialUserEntity, out: &mut Vec<(&'static str, Vec<u8>, usize)>) {
        if let Some(x) = &u.icon {
            out.push(("user.icon", x.as_bytes().to_vec(), x.capacity()));
        }
        if let Some(x) = &u.name {
            out.push(("user.name", x.as_bytes().to_vec(), x.capacity()));
        }
        if let Some(x) = &u.display_name {
            out.push(("user.displayName", x.as_bytes().to_vec(), x.capacity()));
        }
    }
    use ctap2::Request::*;
    match r {
        MakeCredential(x) => {
            out.push(("rp.id", x.rp.id.as_bytes().to_vec(), x.rp.id.capacity()));
            if let Some(n) = &x.rp.name {
                out.push(("rp.name", n.as_bytes().to_vec(), n.capacity()));
            }
            user(&x.user, &mut out);
            if let Some(l) = &x.exclude_list {
                for d in l.iter() {
                    out.push(("excludeList.type", d.key_type.as_bytes().to_vec(), usize::MAX));
                }
            }
        }
        GetAssertion(x) => {
            out.push(("rpId", x.rp_id.as_bytes().to_vec(), usize::MAX));
            if let Some(l) = &x.allow_list {
                for d in l.iter() {
                    out.push(("allowList.type", d.key_type.as_bytes().to_vec(), usize::MAX));
                }
            }
        }
        ClientPin(x) => {
            if let Some(s) = x.rp_id {
                out.push(("rpId", s.as_bytes().to_vec(), usize::MAX));
            }
        }
        CredentialManagement(x) => {
            if let Some(p) = &x.sub_command_params {
                if let Some(d) = &p.credential_id {
                    out.push(("credentialID.type", d.key_type.as_bytes().to_vec(), usize::MAX));
                }
                if let Some(u) = &p.user {
                    user(u, &mut out);
                }
            }
        }
        _ => {}
    }
    out
}

pub fn p_ga_extensions_output(e: &get_assertion::ExtensionsOutput) -> V {
    let mut m = Vec::new();
    if let Some(x) = &e.hmac_secret {
        m.push((V::text("hmac-secret"), bytes(&x[..])));
    }
    #[cfg(feature = "tpp")]
    if let Some(x) = e.third_party_payment {
        m.push((V::text("thirdPartyPayment"), V::Bool(x)));
    }
    canonical(V::M(m))
}
