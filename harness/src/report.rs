//! Event accounting for one shard: case counter, coverage buckets, distinct-input set, samples,
//! violations (with signatures), observations; JSON writer; panic capture.

use crate::rng::hash_bytes;
use std::cell::RefCell;
use std::collections::{BTreeMap, HashSet};
use std::fmt::Write as _;
use std::io::Write as _;

#[derive(Clone, Copy, Debug, PartialEq, Eq)]
pub enum Tier {
    Quick,
    Thorough,
}

pub struct Violation {
    pub sig: String,
    pub detail: String,
    pub input_hex: String,
    pub case_no: u64,
    pub bucket: String,
}

pub struct Rep {
    pub prop: String,
    pub tier: Tier,
    pub seed: u64,
    pub shard: u64,
    pub nshards: u64,
    /// sanitizer-sampling mode (Miri / valgrind): same generators, tiny counts, no enumerations
    pub light: bool,
    pub scale: f64,
    pub only_case: Option<u64>,
    journal: Option<std::fs::File>,
    pub case_no: u64,
    pub evaluations: u64,
    distinct: HashSet<u64>,
    distinct_cap: usize,
    pub distinct_overflow: u64,
    pub distinct_by_construction: u64,
    buckets: BTreeMap<String, u64>,
    samples: BTreeMap<String, String>,
    pub violations: Vec<Violation>,
    viol_counts: BTreeMap<String, u64>,
    notes: BTreeMap<String, String>,
    counters: BTreeMap<String, u64>,
    cur_bucket: String,
    pub verbose: bool,
    /// set by a monitor that found inputs on which the code under test burns CPU for seconds: the
    /// remaining workload is skipped so that the finding is reported instead of a CPU-limit kill
    pub stop: bool,
    /// C16: one line per case, compared across feature builds by the driver
    pub transcript: Vec<String>,
}

thread_local! {
    static LAST_PANIC: RefCell<Option<String>> = const { RefCell::new(None) };
    static IN_GUARD: std::cell::Cell<u32> = const { std::cell::Cell::new(0) };
}

pub fn install_panic_hook() {
    std::panic::set_hook(Box::new(|info| {
        let loc = info
            .location()
            .map(|l| format!("{}:{}", l.file(), l.line()))
            .unwrap_or_else(|| "?".into());
        let msg = if let Some(s) = info.payload().downcast_ref::<&str>() {
            s.to_string()
        } else if let Some(s) = info.payload().downcast_ref::<String>() {
            s.clone()
        } else {
            "<non-string panic>".to_string()
        };
        let text = format!("{} @ {}", msg, loc);
        // a non-unwinding panic (UB check) aborts right after this hook: leave a trace on stderr
        if msg.contains("unsafe precondition") || msg.contains("cannot unwind") || msg.contains("misaligned") {
            eprintln!("VH-UB-CHECK {}", text);
        }
        // a panic outside `guard` is a defect of the harness itself: never silent
        if IN_GUARD.with(|g| g.get()) == 0 {
            eprintln!("VH-HARNESS-PANIC {}", text);
        }
        LAST_PANIC.with(|p| *p.borrow_mut() = Some(text));
    }));
}

/// Run a call into the crate under test; an unwinding panic becomes Err(description).
pub fn guard<T>(f: impl FnOnce() -> T) -> Result<T, String> {
    IN_GUARD.with(|g| g.set(g.get() + 1));
    let r = std::panic::catch_unwind(std::panic::AssertUnwindSafe(f));
    IN_GUARD.with(|g| g.set(g.get() - 1));
    match r {
        Ok(v) => Ok(v),
        Err(_) => Err(LAST_PANIC
            .with(|p| p.borrow_mut().take())
            .unwrap_or_else(|| "panic".into())),
    }
}

/// Normalise a panic description to a stable signature component (strip registry hash dirs).
pub fn panic_site(desc: &str) -> String {
    let at = desc.rsplit(" @ ").next().unwrap_or(desc);
    let at = match at.find("/registry/src/") {
        Some(i) => {
            let rest = &at[i + "/registry/src/".len()..];
            match rest.find('/') {
                Some(j) => &rest[j + 1..],
                None => rest,
            }
        }
        None => at,
    };
    at.trim_start_matches("/repo/").to_string()
}

impl Rep {
    pub fn new(prop: &str, tier: Tier, seed: u64, shard: u64, nshards: u64) -> Rep {
        Rep {
            prop: prop.to_string(),
            tier,
            seed,
            shard,
            nshards,
            light: false,
            scale: 1.0,
            only_case: None,
            journal: None,
            case_no: 0,
            evaluations: 0,
            distinct: HashSet::new(),
            distinct_cap: 3_000_000,
            distinct_overflow: 0,
            distinct_by_construction: 0,
            buckets: BTreeMap::new(),
            samples: BTreeMap::new(),
            violations: Vec::new(),
            viol_counts: BTreeMap::new(),
            notes: BTreeMap::new(),
            counters: BTreeMap::new(),
            cur_bucket: String::new(),
            verbose: false,
            stop: false,
            transcript: Vec::new(),
        }
    }
    pub fn set_journal(&mut self, path: &str) {
        self.journal = std::fs::OpenOptions::new()
            .create(true)
            .write(true)
            .truncate(true)
            .open(path)
            .ok();
    }
    pub fn thorough(&self) -> bool {
        self.tier == Tier::Thorough
    }
    /// Number of cases for a random workload in this shard: quick/thorough totals across all
    /// shards, scaled, at least `min` per shard.
    pub fn n(&self, quick_total: u64, thorough_total: u64) -> u64 {
        // the quick tier of the native builds runs 8x the base count (the base count is what the
        // interpreter/valgrind sampling modes subsample from)
        let t = if self.light {
            quick_total
        } else if self.thorough() {
            thorough_total.max(quick_total * 8)
        } else {
            quick_total * 8
        };
        let t = if self.light { t } else { (t as f64 * self.scale) as u64 };
        (t / self.nshards).max(1)
    }
    /// Is item k of an enumeration mine?  In light (sanitizer-sampling) mode only a seeded
    /// 1/div subsample of the quick workload is executed, div = 1/scale.
    pub fn mine(&self, k: u64) -> bool {
        if k % self.nshards != self.shard {
            return false;
        }
        if self.light {
            let div = (1.0 / self.scale.max(1e-9)).round().max(1.0) as u64;
            return crate::rng::mix(k ^ self.seed.rotate_left(17)) % div == 0;
        }
        true
    }
    /// The case numbers (1..=total) this shard executes, without walking the whole range:
    /// every nshards-th case normally, a seeded subsample of that in light mode.
    pub fn pick(&self, total: u64) -> Vec<u64> {
        let mut out = Vec::new();
        if !self.light {
            let mut k = if self.shard == 0 { self.nshards } else { self.shard };
            while k <= total {
                out.push(k);
                k += self.nshards;
            }
            return out;
        }
        let div = (1.0 / self.scale.max(1e-9)).round().max(1.0) as u64;
        let count = (total / div / self.nshards).max(1);
        for j in 0..count {
            let k = 1 + crate::rng::mix(self.seed ^ (self.shard << 32) ^ j.wrapping_mul(0x9e37)) % total;
            out.push(k);
        }
        out
    }
    /// Start a case.  Returns false if the case must be skipped (replay of a single case).
    pub fn begin(&mut self, bucket: &str) -> bool {
        self.case_no += 1;
        if let Some(k) = self.only_case {
            if k != self.case_no {
                return false;
            }
        }
        if let Some(j) = &mut self.journal {
            use std::os::unix::fs::FileExt;
            let line = format!("{:>20}\n", self.case_no);
            let _ = j.write_at(line.as_bytes(), 0);
        }
        self.evaluations += 1;
        if self.cur_bucket != bucket {
            self.cur_bucket.clear();
            self.cur_bucket.push_str(bucket);
        }
        match self.buckets.get_mut(bucket) {
            Some(c) => *c += 1,
            None => {
                self.buckets.insert(bucket.to_string(), 1);
            }
        }
        true
    }
    /// Account a block of `n` enumerated cases (distinct by construction) without per-case cost.
    pub fn bulk(&mut self, bucket: &str, n: u64, distinct_nontrivial: u64) {
        self.evaluations += n;
        *self.buckets.entry(bucket.to_string()).or_insert(0) += n;
        self.distinct_by_construction += distinct_nontrivial;
    }
    /// Record the input of the current case for distinct counting.
    pub fn input(&mut self, bytes: &[u8], nontrivial: bool) {
        if nontrivial {
            self.input_hash(hash_bytes(bytes));
        }
    }
    pub fn input_hash(&mut self, h: u64) {
        if self.distinct.len() < self.distinct_cap {
            self.distinct.insert(h);
        } else {
            self.distinct_overflow += 1;
        }
    }
    pub fn sample(&mut self, text: impl FnOnce() -> String) {
        if self.samples.len() < 40 && !self.samples.contains_key(&self.cur_bucket) {
            let t = text();
            self.samples.insert(self.cur_bucket.clone(), t);
        }
    }
    pub fn count(&mut self, counter: &str, n: u64) {
        match self.counters.get_mut(counter) {
            Some(c) => *c += n,
            None => {
                self.counters.insert(counter.to_string(), n);
            }
        }
    }
    pub fn count_max(&mut self, counter: &str, n: u64) {
        let e = self.counters.entry(counter.to_string()).or_insert(0);
        if n > *e {
            *e = n;
        }
    }
    pub fn note(&mut self, key: &str, text: String) {
        self.notes.entry(key.to_string()).or_insert(text);
    }
    pub fn violation(&mut self, sig: &str, detail: String, input: &[u8]) {
        let c = self.viol_counts.entry(sig.to_string()).or_insert(0);
        *c += 1;
        if *c <= 2 && self.violations.len() < 200 {
            if self.verbose {
                eprintln!("violation {} :: {}", sig, detail);
            }
            self.violations.push(Violation {
                sig: sig.to_string(),
                detail,
                input_hex: crate::cbor::hex(&input[..input.len().min(8192)]),
                case_no: self.case_no,
                bucket: self.cur_bucket.clone(),
            });
        }
    }
    pub fn nviol(&self) -> u64 {
        self.viol_counts.values().sum()
    }

    pub fn write(&self, out: &str, cfg: &str, build: &str, wall_s: f64) {
        let mut s = String::new();
        s.push('{');
        let _ = write!(
            s,
            "\"prop\":{},\"cfg\":{},\"build\":{},\"tier\":{},\"seed\":{},\"shard\":{},\"nshards\":{},\"light\":{},\"scale\":{},\"wall_s\":{:.3},",
            js(&self.prop),
            js(cfg),
            js(build),
            js(if self.thorough() { "thorough" } else { "quick" }),
            self.seed,
            self.shard,
            self.nshards,
            self.light,
            self.scale,
            wall_s
        );
        let _ = write!(
            s,
            "\"evaluations\":{},\"distinct_hashed\":{},\"distinct_overflow\":{},\"distinct_by_construction\":{},\"cases\":{},",
            self.evaluations,
            self.distinct.len(),
            self.distinct_overflow,
            self.distinct_by_construction,
            self.case_no
        );
        s.push_str("\"buckets\":{");
        let mut first = true;
        for (k, v) in &self.buckets {
            if !first {
                s.push(',');
            }
            first = false;
            let _ = write!(s, "{}:{}", js(k), v);
        }
        s.push_str("},\"counters\":{");
        first = true;
        for (k, v) in &self.counters {
            if !first {
                s.push(',');
            }
            first = false;
            let _ = write!(s, "{}:{}", js(k), v);
        }
        s.push_str("},\"notes\":{");
        first = true;
        for (k, v) in &self.notes {
            if !first {
                s.push(',');
            }
            first = false;
            let _ = write!(s, "{}:{}", js(k), js(v));
        }
        s.push_str("},\"samples\":[");
        first = true;
        for (k, v) in &self.samples {
            if !first {
                s.push(',');
            }
            first = false;
            let _ = write!(s, "{{\"bucket\":{},\"case\":{}}}", js(k), js(v));
        }
        s.push_str("],\"violation_counts\":{");
        first = true;
        for (k, v) in &self.viol_counts {
            if !first {
                s.push(',');
            }
            first = false;
            let _ = write!(s, "{}:{}", js(k), v);
        }
        s.push_str("},\"violations\":[");
        first = true;
        for v in &self.violations {
            if !first {
                s.push(',');
            }
            first = false;
            let _ = write!(
                s,
                "{{\"sig\":{},\"detail\":{},\"input_hex\":{},\"case_no\":{},\"bucket\":{}}}",
                js(&v.sig),
                js(&v.detail),
                js(&v.input_hex),
                v.case_no,
                js(&v.bucket)
            );
        }
        s.push_str("]}");
        if out == "-" {
            println!("{}", s);
        } else {
            let tmp = format!("{}.tmp", out);
            let mut f = std::fs::File::create(&tmp).expect("create report");
            f.write_all(s.as_bytes()).expect("write report");
            drop(f);
            std::fs::rename(&tmp, out).expect("rename report");
            // distinct hashes for cross-shard merge
            let mut hb = Vec::with_capacity(self.distinct.len() * 8);
            for h in &self.distinct {
                hb.extend_from_slice(&h.to_le_bytes());
            }
            let _ = std::fs::write(format!("{}.hashes", out), hb);
            if !self.transcript.is_empty() {
                let _ = std::fs::write(format!("{}.transcript", out), self.transcript.join("\n") + "\n");
            }
        }
    }
}

pub fn js(s: &str) -> String {
    let mut o = String::with_capacity(s.len() + 2);
    o.push('"');
    for c in s.chars() {
        match c {
            '"' => o.push_str("\\\""),
            '\\' => o.push_str("\\\\"),
            '\n' => o.push_str("\\n"),
            '\r' => o.push_str("\\r"),
            '\t' => o.push_str("\\t"),
            c if (c as u32) < 0x20 => {
                let _ = write!(o, "\\u{:04x}", c as u32);
            }
            c => o.push(c),
        }
    }
    o.push('"');
    o
}

/// `vh distinct f1 f2 ...` : count distinct u64 across hash files.
pub fn distinct_files(files: &[String]) -> u64 {
    let mut all: Vec<u64> = Vec::new();
    for f in files {
        if let Ok(b) = std::fs::read(f) {
            for c in b.chunks_exact(8) {
                all.push(u64::from_le_bytes(c.try_into().unwrap()));
            }
        }
    }
    all.sort_unstable();
    all.dedup();
    all.len() as u64
}
