//! Response generators: build a value through the crate's public API (builders, `Default`, public
//! field assignment; decode for the types without a constructor) and, side by side, the model value
//! the specifications say it must encode to (keys and spellings from the CTAP 2.0/2.1/2.2 response
//! tables, WebAuthn dictionaries and RFC 8152).  Fields are addressed by NAME, never by position.

use crate::cbor::{canonical, encode, V};
use crate::rng::Rng;
use crate::schema::gen_uint;
use ctap_types::ctap2::{
    self, client_pin, credential_management, get_assertion, get_info, large_blobs, make_credential,
    AttestationStatement, AttestationStatementFormat, NoneAttestationStatement, PackedAttestationStatement,
};
use ctap_types::heapless;
use ctap_types::serde::cbor_deserialize;
use ctap_types::webauthn::*;
use ctap_types::{ByteArray, Bytes};

pub struct Ctl<'r> {
    pub rng: &'r mut Rng,
    /// presence bits of the optional members of the top-level response map
    pub top_mask: Option<u64>,
    /// one nested map kind whose optional members follow this mask
    pub focus: Option<(&'static str, u64)>,
    /// nested optional members: None = random, Some(b) = all present / all absent
    pub nested: Option<bool>,
    /// only members that exist in every feature configuration (C16)
    pub common_only: bool,
    /// keep variable-size members small
    pub small: bool,
    /// target size for the size-tunable member (authData / x5c / config); None = random
    pub bulk: Option<usize>,
    /// GetInfo.algorithms may hold any algorithm identifier (an authenticator can construct
    /// `KnownPublicKeyCredentialParameters { alg }` freely); off where decode∘encode must be the
    /// identity, because decoding filters unknown algorithms (C15, C16)
    pub any_alg: bool,
    idx: usize,
}

impl<'r> Ctl<'r> {
    pub fn new(rng: &'r mut Rng) -> Ctl<'r> {
        Ctl {
            rng,
            top_mask: None,
            focus: None,
            nested: None,
            common_only: false,
            small: false,
            bulk: None,
            any_alg: false,
            idx: 0,
        }
    }
    fn top(&mut self) -> bool {
        let i = self.idx;
        self.idx += 1;
        match self.top_mask {
            Some(m) => (m >> i) & 1 == 1,
            None => self.rng.bool(),
        }
    }
    fn nest(&mut self, kind: &'static str, i: usize) -> bool {
        if let Some((k, m)) = self.focus {
            if k == kind {
                return (m >> i) & 1 == 1;
            }
        }
        match self.nested {
            Some(b) => b,
            None => self.rng.bool(),
        }
    }
}

pub fn hb<const N: usize>(v: &mut Vec<u8>) -> Bytes<N> {
    v.truncate(N);
    Bytes::from_slice(v).unwrap()
}

pub fn hs<const N: usize>(s: &mut String) -> heapless::String<N> {
    let mut n = s.len().min(N);
    while !s.is_char_boundary(n) {
        n -= 1;
    }
    s.truncate(n);
    let mut out = heapless::String::new();
    out.push_str(s).unwrap();
    out
}

pub fn hv<T, const N: usize>(items: Vec<T>, model: &mut Vec<V>) -> heapless::Vec<T, N> {
    let mut out = heapless::Vec::new();
    for (i, x) in items.into_iter().enumerate() {
        if out.push(x).is_err() {
            model.truncate(i);
            break;
        }
    }
    out
}

fn ba32(rng: &mut Rng) -> (ByteArray<32>, V) {
    let b = rng.bytes(32);
    let mut a = [0u8; 32];
    a.copy_from_slice(&b);
    (ByteArray::new(a), V::B(b))
}

fn len_pick(rng: &mut Rng, max: usize, small: bool) -> usize {
    let cap = if small { max.min(40) } else { max };
    match rng.below(8) {
        0 => 0,
        1 => 1.min(cap),
        2 => cap,
        3 => cap.saturating_sub(1),
        4 => 23.min(cap),
        5 => 24.min(cap),
        _ => rng.usize(cap + 1),
    }
}

fn text_pick(rng: &mut Rng, max: usize, small: bool) -> String {
    let n = len_pick(rng, max, small);
    match crate::schema::gen_text(rng, n) {
        V::T(b) => String::from_utf8(b).unwrap_or_default(),
        _ => String::new(),
    }
}

pub const VERSIONS: [(get_info::Version, &str); 4] = [
    (get_info::Version::Fido2_0, "FIDO_2_0"),
    (get_info::Version::Fido2_1, "FIDO_2_1"),
    (get_info::Version::Fido2_1Pre, "FIDO_2_1_PRE"),
    (get_info::Version::U2fV2, "U2F_V2"),
];
pub const EXTENSIONS: [(get_info::Extension, &str); 4] = [
    (get_info::Extension::CredProtect, "credProtect"),
    (get_info::Extension::HmacSecret, "hmac-secret"),
    (get_info::Extension::LargeBlobKey, "largeBlobKey"),
    (get_info::Extension::ThirdPartyPayment, "thirdPartyPayment"),
];
pub const TRANSPORTS: [(get_info::Transport, &str); 2] = [(get_info::Transport::Nfc, "nfc"), (get_info::Transport::Usb, "usb")];
pub const FORMATS: [(AttestationStatementFormat, &str); 2] = [
    (AttestationStatementFormat::None, "none"),
    (AttestationStatementFormat::Packed, "packed"),
];

fn list_of<T: Copy, const N: usize>(rng: &mut Rng, table: &[(T, &str)]) -> (heapless::Vec<T, N>, V) {
    let n = rng.usize(N + 1);
    let mut items = Vec::new();
    let mut model = Vec::new();
    for _ in 0..n {
        let (t, s) = table[rng.usize(table.len())];
        items.push(t);
        model.push(V::text(s));
    }
    (hv(items, &mut model), V::A(model))
}

pub fn gen_user(c: &mut Ctl) -> (PublicKeyCredentialUserEntity, V) {
    let mut id = {
        let n = len_pick(c.rng, 64, c.small);
        crate::schema::gen_bytes_content(c.rng, n)
    };
    let mut u = PublicKeyCredentialUserEntity::from(hb(&mut id));
    let mut m = vec![(V::text("id"), V::B(id))];
    if c.nest("user", 0) {
        let mut s = text_pick(c.rng, 128, c.small);
        u.icon = Some(hs(&mut s));
        m.push((V::text("icon"), V::text(&s)));
    }
    if c.nest("user", 1) {
        let mut s = text_pick(c.rng, 64, c.small);
        u.name = Some(hs(&mut s));
        m.push((V::text("name"), V::text(&s)));
    }
    if c.nest("user", 2) {
        let mut s = text_pick(c.rng, 64, c.small);
        u.display_name = Some(hs(&mut s));
        m.push((V::text("displayName"), V::text(&s)));
    }
    (u, canonical(V::M(m)))
}

pub fn gen_rp(c: &mut Ctl) -> (PublicKeyCredentialRpEntity, V) {
    let mut id = text_pick(c.rng, 256, c.small);
    let mut m = vec![];
    let idh = hs(&mut id);
    m.push((V::text("id"), V::text(&id)));
    let name = if c.nest("rp", 0) {
        let mut s = text_pick(c.rng, 64, c.small);
        let h = hs(&mut s);
        m.push((V::text("name"), V::text(&s)));
        Some(h)
    } else {
        None
    };
    // the icon is deliberately never re-emitted
    let icon = if c.rng.bool() { Some(Icon) } else { None };
    (PublicKeyCredentialRpEntity { id: idh, name, icon }, canonical(V::M(m)))
}

pub fn gen_descriptor(c: &mut Ctl) -> (PublicKeyCredentialDescriptor, V) {
    let mut id = {
        let n = len_pick(c.rng, 255, c.small);
        crate::schema::gen_bytes_content(c.rng, n)
    };
    let mut ty = match c.rng.below(8) {
        0 => text_pick(c.rng, 32, true),
        1 => crate::schema::identifier_variant(c.rng, "public-key"),
        _ => "public-key".to_string(),
    };
    let d = PublicKeyCredentialDescriptor {
        id: hb(&mut id),
        key_type: hs(&mut ty),
    };
    (d, canonical(V::M(vec![(V::text("id"), V::B(id)), (V::text("type"), V::text(&ty))])))
}

pub fn gen_cose(rng: &mut Rng, kind: u64) -> (cosey::PublicKey, V) {
    let xl = if rng.chance(3, 4) { 32 } else { rng.usize(33) };
    let yl = if rng.chance(3, 4) { 32 } else { rng.usize(33) };
    let mut x = rng.bytes(xl);
    let mut y = rng.bytes(yl);
    match kind % 4 {
        0 => (
            cosey::PublicKey::P256Key(cosey::P256PublicKey { x: hb(&mut x), y: hb(&mut y) }),
            V::M(vec![
                (V::int(1), V::int(2)),
                (V::int(3), V::int(-7)),
                (V::int(-1), V::int(1)),
                (V::int(-2), V::B(x)),
                (V::int(-3), V::B(y)),
            ]),
        ),
        1 => (
            cosey::PublicKey::EcdhEsHkdf256Key(cosey::EcdhEsHkdf256PublicKey { x: hb(&mut x), y: hb(&mut y) }),
            V::M(vec![
                (V::int(1), V::int(2)),
                (V::int(3), V::int(-25)),
                (V::int(-1), V::int(1)),
                (V::int(-2), V::B(x)),
                (V::int(-3), V::B(y)),
            ]),
        ),
        2 => (
            cosey::PublicKey::Ed25519Key(cosey::Ed25519PublicKey { x: hb(&mut x) }),
            V::M(vec![
                (V::int(1), V::int(1)),
                (V::int(3), V::int(-8)),
                (V::int(-1), V::int(6)),
                (V::int(-2), V::B(x)),
            ]),
        ),
        _ => (
            cosey::PublicKey::TotpKey(cosey::TotpPublicKey {}),
            V::M(vec![(V::int(1), V::int(4)), (V::int(3), V::int(-9))]),
        ),
    }
}

pub fn gen_ecdh(rng: &mut Rng) -> (cosey::EcdhEsHkdf256PublicKey, V) {
    match gen_cose(rng, 1) {
        (cosey::PublicKey::EcdhEsHkdf256Key(k), v) => (k, v),
        _ => unreachable!(),
    }
}

pub fn gen_att_stmt(c: &mut Ctl) -> (AttestationStatement, V) {
    if c.rng.chance(1, 3) {
        return (AttestationStatement::None(NoneAttestationStatement {}), V::M(vec![]));
    }
    let alg = *c.rng.pick(&[-7i32, -8, -257, 0, 23, 24, -24, -25, 255, 256, 65536, i32::MAX, i32::MIN]);
    let mut sig = {
        let n = len_pick(c.rng, 77, c.small);
        crate::schema::gen_bytes_content(c.rng, n)
    };
    let sigb = hb(&mut sig);
    let mut m = vec![(V::text("alg"), V::int(alg as i128)), (V::text("sig"), V::B(sig))];
    let x5c = if c.nest("packed", 0) {
        let n_cert = if c.rng.chance(1, 5) { 0 } else { 1 };
        let mut model = Vec::new();
        let mut items = Vec::new();
        for _ in 0..n_cert {
            let n = match c.bulk {
                Some(b) => {
                    let n = b.min(1024);
                    c.bulk = Some(b - n);
                    n
                }
                None => len_pick(c.rng, 1024, c.small),
            };
            let mut cert = crate::schema::gen_bytes_content(c.rng, n);
            items.push(hb::<1024>(&mut cert));
            model.push(V::B(cert));
        }
        let v = hv(items, &mut model);
        m.push((V::text("x5c"), V::A(model)));
        Some(v)
    } else {
        None
    };
    (
        AttestationStatement::Packed(PackedAttestationStatement { alg, sig: sigb, x5c }),
        canonical(V::M(m)),
    )
}

fn gen_auth_data(c: &mut Ctl) -> Vec<u8> {
    let n = match c.bulk {
        Some(b) => {
            let n = b.min(676);
            c.bulk = Some(b - n);
            n
        }
        None => match c.rng.below(6) {
            0 => 37,
            1 => 0,
            2 if !c.small => 676,
            3 if !c.small => 255 + c.rng.usize(3),
            _ => c.rng.usize(if c.small { 80 } else { 677 }),
        },
    };
    crate::schema::gen_bytes_content(c.rng, n)
}

pub fn gen_ctap_options(c: &mut Ctl) -> (get_info::CtapOptions, V) {
    let mut o = get_info::CtapOptions::default();
    let mut m = Vec::new();
    o.rk = c.rng.bool();
    o.up = c.rng.bool();
    m.push((V::text("rk"), V::Bool(o.rk)));
    m.push((V::text("up"), V::Bool(o.up)));
    let mut i = 0;
    macro_rules! opt {
        ($field:ident, $key:expr) => {{
            if c.nest("CtapOptions", i) {
                let b = c.rng.bool();
                o.$field = Some(b);
                m.push((V::text($key), V::Bool(b)));
            }
            i += 1;
        }};
    }
    opt!(uv, "uv");
    opt!(plat, "plat");
    opt!(cred_mgmt, "credMgmt");
    opt!(client_pin, "clientPin");
    opt!(large_blobs, "largeBlobs");
    opt!(pin_uv_auth_token, "pinUvAuthToken");
    #[cfg(feature = "gif")]
    if !c.common_only {
        opt!(ep, "ep");
        opt!(uv_acfg, "uvAcfg");
        opt!(always_uv, "alwaysUv");
        opt!(authnr_cfg, "authnrCfg");
        opt!(bio_enroll, "bioEnroll");
        opt!(uv_bio_enroll, "uvBioEnroll");
        opt!(set_min_pin_length, "setMinPINLength");
        opt!(make_cred_uv_not_rqd, "makeCredUvNotRqd");
        opt!(credential_mgmt_preview, "credentialMgmtPreview");
        opt!(user_verification_mgmt_preview, "userVerificationMgmtPreview");
        opt!(no_mc_ga_permissions_with_client_pin, "noMcGaPermissionsWithClientPin");
    }
    let _ = i;
    (o, canonical(V::M(m)))
}

pub const N_CTAP_OPTIONS: usize = if cfg!(feature = "gif") { 17 } else { 6 };

pub const CERT_KEYS: [&str; 6] = ["FIPS-CMVP-2", "FIPS-CMVP-3", "FIPS-CMVP-2-PHY", "FIPS-CMVP-3-PHY", "CC-EAL", "FIDO"];

/// `Certifications` has no public constructor: the only way to obtain one is to decode it.
#[cfg(feature = "gif")]
pub fn gen_certifications(c: &mut Ctl) -> Option<(get_info::Certifications, V)> {
    let mut m = Vec::new();
    for (i, k) in CERT_KEYS.iter().enumerate() {
        if c.nest("Certifications", i) {
            m.push((V::text(k), V::U(gen_uint(c.rng, 255))));
        }
    }
    let v = canonical(V::M(m));
    let bytes = encode(&v);
    let cert: get_info::Certifications = cbor_deserialize(&bytes).ok()?;
    // what was decoded must be what was sent (by name)
    let seen = [
        cert.fips_cmpv2,
        cert.fips_cmpv3,
        cert.fips_cmpv2_phy,
        cert.fips_cmpv3_phy,
        cert.cc_eal,
        cert.fido,
    ];
    for (i, k) in CERT_KEYS.iter().enumerate() {
        let sent = v.get_t(k).and_then(|x| x.as_int());
        if sent != seen[i].map(|x| x as i128) {
            return None;
        }
    }
    Some((cert, v))
}

pub fn gen_get_info(c: &mut Ctl) -> (get_info::Response, V) {
    c.idx = 0;
    let (versions, vm) = list_of::<_, 4>(c.rng, &VERSIONS);
    let mut aag = if c.rng.chance(7, 8) { c.rng.bytes(16) } else { { let n = c.rng.usize(17); crate::schema::gen_bytes_content(c.rng, n) } };
    let mut r = get_info::ResponseBuilder {
        versions,
        aaguid: hb(&mut aag),
    }
    .build();
    let mut m = vec![(V::U(1), vm), (V::U(3), V::B(aag))];
    if c.top() {
        let (x, v) = list_of::<_, 4>(c.rng, &EXTENSIONS);
        r.extensions = Some(x);
        m.push((V::U(2), v));
    }
    if c.top() {
        let (x, v) = gen_ctap_options(c);
        r.options = Some(x);
        m.push((V::U(4), v));
    }
    macro_rules! num {
        ($field:ident, $key:expr) => {{
            if c.top() {
                let n = gen_uint(c.rng, u64::MAX);
                r.$field = Some(n as usize);
                m.push((V::U($key), V::U(n)));
            }
        }};
    }
    #[allow(unused_macros)]
    macro_rules! flag {
        ($field:ident, $key:expr) => {{
            if c.top() {
                let b = c.rng.bool();
                r.$field = Some(b);
                m.push((V::U($key), V::Bool(b)));
            }
        }};
    }
    num!(max_msg_size, 5);
    if c.top() {
        let n = c.rng.usize(3);
        let mut model = Vec::new();
        let mut items = Vec::new();
        for _ in 0..n {
            let x = gen_uint(c.rng, 255);
            items.push(x as u8);
            model.push(V::U(x));
        }
        r.pin_protocols = Some(hv(items, &mut model));
        m.push((V::U(6), V::A(model)));
    }
    num!(max_creds_in_list, 7);
    num!(max_cred_id_length, 8);
    if c.top() {
        let (x, v) = list_of::<_, 4>(c.rng, &TRANSPORTS);
        r.transports = Some(x);
        m.push((V::U(9), v));
    }
    if c.top() {
        let n = c.rng.usize(3);
        let mut model = Vec::new();
        let mut items = Vec::new();
        for _ in 0..n {
            let alg = if c.any_alg && c.rng.chance(1, 3) {
                *c.rng.pick(&[-257i32, -35, -36, -65535, -9, -6, 0, 1, 24, -24, -25, 256, i32::MIN, i32::MAX])
            } else {
                *c.rng.pick(&[-7i32, -8])
            };
            items.push(KnownPublicKeyCredentialParameters { alg });
            model.push(canonical(V::M(vec![
                (V::text("alg"), V::int(alg as i128)),
                (V::text("type"), V::text("public-key")),
            ])));
        }
        r.algorithms = Some(FilteredPublicKeyCredentialParameters(hv(items, &mut model)));
        m.push((V::U(10), V::A(model)));
    }
    num!(max_serialized_large_blob_array, 11);
    #[cfg(feature = "gif")]
    if !c.common_only {
        flag!(force_pin_change, 12);
        num!(min_pin_length, 13);
        num!(firmware_version, 14);
        num!(max_cred_blob_length, 15);
        num!(max_rpids_for_set_min_pin_length, 16);
        num!(preferred_platform_uv_attempts, 17);
        num!(uv_modality, 18);
        if c.top() {
            if let Some((x, v)) = gen_certifications(c) {
                r.certifications = Some(x);
                m.push((V::U(19), v));
            }
        }
        num!(remaining_discoverable_credentials, 20);
        num!(vendor_prototype_config_commands, 21);
        if c.top() {
            let (x, v) = list_of::<_, 2>(c.rng, &FORMATS);
            r.attestation_formats = Some(x);
            m.push((V::U(22), v));
        }
        num!(uv_count_since_last_pin_entry, 23);
        flag!(long_touch_for_reset, 24);
    }
    #[cfg(not(feature = "gif"))]
    {
        let _ = |b: bool| b;
    }
    (r, canonical(V::M(m)))
}

pub const N_GET_INFO: usize = if cfg!(feature = "gif") { 22 } else { 9 };

pub fn gen_make_credential(c: &mut Ctl) -> (make_credential::Response, V) {
    c.idx = 0;
    let (fmt, fs) = FORMATS[c.rng.usize(2)];
    let mut ad = gen_auth_data(c);
    let mut r = make_credential::ResponseBuilder {
        fmt,
        auth_data: hb(&mut ad),
    }
    .build();
    let mut m = vec![(V::U(1), V::text(fs)), (V::U(2), V::B(ad))];
    if c.top() {
        let (x, v) = gen_att_stmt(c);
        r.att_stmt = Some(x);
        m.push((V::U(3), v));
    }
    if c.top() {
        let b = c.rng.bool();
        r.ep_att = Some(b);
        m.push((V::U(4), V::Bool(b)));
    }
    if c.top() {
        let (x, v) = ba32(c.rng);
        r.large_blob_key = Some(x);
        m.push((V::U(5), v));
    }
    // key 6 (unsignedExtensionOutputs): the type has no public constructor, an authenticator cannot set it
    (r, canonical(V::M(m)))
}
pub const N_MAKE_CREDENTIAL: usize = 3;

pub fn gen_get_assertion(c: &mut Ctl) -> (get_assertion::Response, V) {
    c.idx = 0;
    let (cred, cv) = gen_descriptor(c);
    let mut ad = gen_auth_data(c);
    let mut sig = {
        let n = len_pick(c.rng, 77, c.small);
        crate::schema::gen_bytes_content(c.rng, n)
    };
    let mut r = get_assertion::ResponseBuilder {
        credential: cred,
        auth_data: hb(&mut ad),
        signature: hb(&mut sig),
    }
    .build();
    let mut m = vec![(V::U(1), cv), (V::U(2), V::B(ad)), (V::U(3), V::B(sig))];
    if c.top() {
        let (x, v) = gen_user(c);
        r.user = Some(x);
        m.push((V::U(4), v));
    }
    if c.top() {
        let n = gen_uint(c.rng, 0xffff_ffff);
        r.number_of_credentials = Some(n as u32);
        m.push((V::U(5), V::U(n)));
    }
    if c.top() {
        let b = c.rng.bool();
        r.user_selected = Some(b);
        m.push((V::U(6), V::Bool(b)));
    }
    if c.top() {
        let (x, v) = ba32(c.rng);
        r.large_blob_key = Some(x);
        m.push((V::U(7), v));
    }
    if c.top() {
        // obtainable only by decoding an empty map
        if let Ok(x) = cbor_deserialize::<get_assertion::UnsignedExtensionOutputs>(&[0xa0]) {
            r.unsigned_extension_outputs = Some(x);
            m.push((V::U(8), V::M(vec![])));
        }
    }
    if c.top() {
        let b = c.rng.bool();
        r.ep_att = Some(b);
        m.push((V::U(9), V::Bool(b)));
    }
    if c.top() {
        let (x, v) = gen_att_stmt(c);
        r.att_stmt = Some(x);
        m.push((V::U(10), v));
    }
    (r, canonical(V::M(m)))
}
pub const N_GET_ASSERTION: usize = 7;

pub fn gen_client_pin(c: &mut Ctl) -> (client_pin::Response, V) {
    c.idx = 0;
    let mut r = client_pin::Response::default();
    let mut m = Vec::new();
    if c.top() {
        let (k, v) = gen_ecdh(c.rng);
        r.key_agreement = Some(k);
        m.push((V::U(1), v));
    }
    if c.top() {
        let mut t = {
            let n = len_pick(c.rng, 48, c.small);
            crate::schema::gen_bytes_content(c.rng, n)
        };
        r.pin_token = Some(hb(&mut t));
        m.push((V::U(2), V::B(t)));
    }
    if c.top() {
        let n = gen_uint(c.rng, 255);
        r.retries = Some(n as u8);
        m.push((V::U(3), V::U(n)));
    }
    if c.top() {
        let b = c.rng.bool();
        r.power_cycle_state = Some(b);
        m.push((V::U(4), V::Bool(b)));
    }
    if c.top() {
        let n = gen_uint(c.rng, 255);
        r.uv_retries = Some(n as u8);
        m.push((V::U(5), V::U(n)));
    }
    (r, V::M(m))
}
pub const N_CLIENT_PIN: usize = 5;

pub fn gen_credential_management(c: &mut Ctl) -> (credential_management::Response, V) {
    c.idx = 0;
    let mut r = credential_management::Response::default();
    let mut m = Vec::new();
    macro_rules! num32 {
        ($field:ident, $key:expr) => {{
            if c.top() {
                let n = gen_uint(c.rng, 0xffff_ffff);
                r.$field = Some(n as u32);
                m.push((V::U($key), V::U(n)));
            }
        }};
    }
    num32!(existing_resident_credentials_count, 1);
    num32!(max_possible_remaining_residential_credentials_count, 2);
    if c.top() {
        let (x, v) = gen_rp(c);
        r.rp = Some(x);
        m.push((V::U(3), v));
    }
    if c.top() {
        let (x, v) = ba32(c.rng);
        r.rp_id_hash = Some(x);
        m.push((V::U(4), v));
    }
    num32!(total_rps, 5);
    if c.top() {
        let (x, v) = gen_user(c);
        r.user = Some(x);
        m.push((V::U(6), v));
    }
    if c.top() {
        let (x, v) = gen_descriptor(c);
        r.credential_id = Some(x);
        m.push((V::U(7), v));
    }
    if c.top() {
        let k = c.rng.below(4);
        let (x, v) = gen_cose(c.rng, k);
        r.public_key = Some(x);
        m.push((V::U(8), v));
    }
    num32!(total_credentials, 9);
    if c.top() {
        use credential_management::CredentialProtectionPolicy::*;
        let (p, n) = *c.rng.pick(&[(Optional, 1u64), (OptionalWithCredentialIdList, 2), (Required, 3)]);
        r.cred_protect = Some(p);
        m.push((V::U(10), V::U(n)));
    }
    if c.top() {
        let (x, v) = ba32(c.rng);
        r.large_blob_key = Some(x);
        m.push((V::U(11), v));
    }
    #[cfg(feature = "tpp")]
    if !c.common_only && c.top() {
        let b = c.rng.bool();
        r.third_party_payment = Some(b);
        m.push((V::U(12), V::Bool(b)));
    }
    (r, V::M(m))
}
pub const N_CREDENTIAL_MANAGEMENT: usize = if cfg!(feature = "tpp") { 12 } else { 11 };

pub fn gen_large_blobs(c: &mut Ctl) -> (large_blobs::Response, V) {
    c.idx = 0;
    let mut r = large_blobs::Response::default();
    let mut m = Vec::new();
    if c.top() {
        let cap = if c.common_only { 0 } else { 3008 };
        let n = match c.bulk {
            Some(b) => b.min(cap),
            None => len_pick(c.rng, cap, c.small),
        };
        let mut b = crate::schema::gen_bytes_content(c.rng, n);
        r.config = Some(hb(&mut b));
        m.push((V::U(1), V::B(b)));
    }
    (r, V::M(m))
}
pub const N_LARGE_BLOBS: usize = 1;

pub const KINDS: [(&str, usize); 10] = [
    ("GetInfo", N_GET_INFO),
    ("MakeCredential", N_MAKE_CREDENTIAL),
    ("GetAssertion", N_GET_ASSERTION),
    ("GetNextAssertion", N_GET_ASSERTION),
    ("ClientPin", N_CLIENT_PIN),
    ("CredentialManagement", N_CREDENTIAL_MANAGEMENT),
    ("LargeBlobs", N_LARGE_BLOBS),
    ("Reset", 0),
    ("Selection", 0),
    ("Vendor", 0),
];

/// Build a response of the given kind.  The model is None for the parameter-less responses.
pub fn gen_response(kind: &str, c: &mut Ctl) -> (ctap2::Response, Option<V>) {
    match kind {
        "GetInfo" => {
            let (r, v) = gen_get_info(c);
            (ctap2::Response::GetInfo(r), Some(v))
        }
        "MakeCredential" => {
            let (r, v) = gen_make_credential(c);
            (ctap2::Response::MakeCredential(r), Some(v))
        }
        "GetAssertion" => {
            let (r, v) = gen_get_assertion(c);
            (ctap2::Response::GetAssertion(r), Some(v))
        }
        "GetNextAssertion" => {
            let (r, v) = gen_get_assertion(c);
            (ctap2::Response::GetNextAssertion(r), Some(v))
        }
        "ClientPin" => {
            let (r, v) = gen_client_pin(c);
            (ctap2::Response::ClientPin(r), Some(v))
        }
        "CredentialManagement" => {
            let (r, v) = gen_credential_management(c);
            (ctap2::Response::CredentialManagement(r), Some(v))
        }
        "LargeBlobs" => {
            let (r, v) = gen_large_blobs(c);
            (ctap2::Response::LargeBlobs(r), Some(v))
        }
        "Reset" => (ctap2::Response::Reset, None),
        "Selection" => (ctap2::Response::Selection, None),
        _ => (ctap2::Response::Vendor, None),
    }
}

/// Expected wire bytes of a response: status 0x00, then the canonical map unless it is empty.
pub fn expected_bytes(model: &Option<V>) -> Vec<u8> {
    let mut out = vec![0x00];
    if let Some(v) = model {
        let body = encode(&canonical(v.clone()));
        if body != [0xa0] {
            out.extend_from_slice(&body);
        }
    }
    out
}
