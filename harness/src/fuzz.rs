//! Oracles for arbitrary byte inputs (used by the libFuzzer stage and by `vh judge-bytes`):
//! the reference validator decides whether an arbitrary message is *well-formed for its command*
//! (canonical CBOR, known members only where the map is closed, types and limits respected); if it
//! is, the full faithful-decode oracle of C01/C12/C13/C14 applies; in every case the robustness
//! oracle of C04 and the status-set clause of C05 apply.

use crate::cbor::{parse_canonical, V};
use crate::schema::{self, as_map_schema, normalize, within_limit, S};
use crate::util::{decode_checked, status_name, vdiff, Decoded};

/// Does value `v` conform to schema `s`?  Err(reason) otherwise.
pub fn conforms(s: &S, v: &V) -> Result<(), String> {
    match s {
        S::UInt { .. } | S::UEnum(_) => match v {
            V::U(_) => lim(s, v),
            _ => Err("type".into()),
        },
        S::Int { .. } => match v {
            V::U(_) | V::N(_) => lim(s, v),
            _ => Err("type".into()),
        },
        S::Bool => match v {
            V::Bool(_) => Ok(()),
            _ => Err("type".into()),
        },
        S::Bytes { .. } => match v {
            V::B(_) => lim(s, v),
            _ => Err("type".into()),
        },
        S::Text { .. } | S::TextTrunc { .. } | S::TextDropIfLonger { .. } | S::TextDiscard => match v {
            V::T(b) => {
                if std::str::from_utf8(b).is_err() {
                    return Err("utf8".into());
                }
                lim(s, v)
            }
            _ => Err("type".into()),
        },
        S::Array { of, .. } => match v {
            V::A(a) => {
                lim(s, v)?;
                for x in a {
                    conforms(of, x)?;
                }
                Ok(())
            }
            _ => Err("type".into()),
        },
        S::Params => match v {
            V::A(a) => {
                for x in a {
                    conforms(schema::param_entry(), x)?;
                }
                Ok(())
            }
            _ => Err("type".into()),
        },
        S::Formats => match v {
            V::A(a) => {
                for x in a {
                    match x {
                        V::T(b) if std::str::from_utf8(b).is_ok() => {}
                        _ => return Err("format entry".into()),
                    }
                }
                Ok(())
            }
            _ => Err("type".into()),
        },
        S::CoseEcdh => {
            // exact key order 1, 3, -1, -2, -3 (alg optional), constants as RFC 8152 / CTAP
            let m = v.as_map().ok_or("type")?;
            let keys: Vec<i128> = m.iter().map(|(k, _)| k.as_int().unwrap_or(i128::MAX)).collect();
            if keys != [1, 3, -1, -2, -3] && keys != [1, -1, -2, -3] {
                return Err("cose members".into());
            }
            conforms_map(s, v)
        }
        S::Map(_) => conforms_map(s, v),
    }
}

fn lim(s: &S, v: &V) -> Result<(), String> {
    match within_limit(s, v) {
        Some(true) | None => Ok(()),
        Some(false) => Err("limit".into()),
    }
}

fn conforms_map(s: &S, v: &V) -> Result<(), String> {
    let ms = as_map_schema(s).ok_or("schema")?;
    let m = v.as_map().ok_or("type")?;
    let mut seen: Vec<&'static str> = Vec::new();
    for (k, x) in m {
        match ms.members.iter().find(|mm| mm.key == *k || mm.aliases.iter().any(|a| *k == V::text(a))) {
            Some(mem) => {
                if seen.contains(&mem.name) {
                    return Err("duplicate (alias)".into());
                }
                seen.push(mem.name);
                conforms(&mem.s, x)?;
            }
            None => {
                // unknown members: only text keys, only in the maps the specifications let
                // platforms extend; their values are canonical by the outer parse
                if !(ms.extensible && matches!(k, V::T(_))) {
                    return Err("unknown member in a closed map".into());
                }
            }
        }
    }
    for mem in &ms.members {
        if mem.required && !seen.contains(&mem.name) {
            return Err("missing required".into());
        }
    }
    Ok(())
}

/// Judge one arbitrary input.  Returns the list of violations (signature, detail).
pub fn judge_bytes(bytes: &[u8]) -> Vec<(String, String)> {
    let mut out = Vec::new();
    let (d, problems) = decode_checked(bytes);
    match &d {
        Decoded::Panic(p) => out.push((format!("C04|panic|{}", crate::report::panic_site(p)), p.clone())),
        Decoded::Err(s) if !matches!(*s, 0x01 | 0x12 | 0x14) => out.push((
            format!("C04|status-outside-set|{}", status_name(*s)),
            format!("rejection status {}", status_name(*s)),
        )),
        _ => {}
    }
    for p in problems {
        if !p.starts_with("OBS ") {
            out.push((format!("C04|invariant|{}", p.split(' ').take(3).collect::<Vec<_>>().join(" ")), p));
        }
    }
    // determinism
    let copy = bytes.to_vec();
    let (d2, _) = decode_checked(&copy);
    if d != d2 {
        out.push(("C04|nondeterministic".into(), format!("{:?} vs {:?}", d, d2)));
    }
    // faithful decode of everything the reference validator accepts
    if bytes.len() >= 2 {
        if let Some(s) = schema::command_schema(bytes[0]) {
            if let Ok(v) = parse_canonical(&bytes[1..]) {
                if conforms(&s, &v).is_ok() {
                    if let Some(exp) = normalize(&s, &v) {
                        let want = crate::project::variant_for_cmd(bytes[0]);
                        match &d {
                            Decoded::Ok(name, got) => {
                                if *name != want {
                                    out.push(("C01|wrong-variant".into(), format!("{} instead of {}", name, want)));
                                } else if let Some((path, what)) = vdiff(&exp, got, "") {
                                    out.push((
                                        format!("C01|value|{}", crate::util::stable_path(&path)),
                                        format!("at {}: {}; sent {}", path, what, v.diag()),
                                    ));
                                }
                            }
                            Decoded::Err(e) => out.push((
                                format!("C01|rejected|{}", status_name(*e)),
                                format!("well-formed message rejected with {}; sent {}", status_name(*e), v.diag()),
                            )),
                            Decoded::Panic(_) => {}
                        }
                    }
                }
            }
        }
    }
    out
}
