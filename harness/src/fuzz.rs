//! Oracles for arbitrary byte inputs (used by the libFuzzer stage and by `vh judge-bytes`):
//! the reference validator decides whether an arbitrary message is *well-formed for its command*
//! (canonical CBOR, known members only where the map is closed, types and limits respected); if it
//! is, the full faithful-decode oracle of C01/C12/C13/C14 applies; in every case the robustness
//! oracle of C04 and the status-set clause of C05 apply.

use crate::cbor::{parse_canonical, V};
use crate::schema::{self, as_map_schema, normalize, within_limit, S};
use crate::util::{decode_checked, status_name, vdiff, Decoded};

/// Does value `v` conform to schema `s`?  Err(reason) otherwise.
pub fn conforms(s: &S, v: &V) -> Result<(), String> {
    match s {
        S::UInt { .. } | S::UEnum(_) => match v {
            V::U(_) => lim(s, v),
            _ => Err("type".into()),
        },
        S::Int { .. } => match v {
            V::U(_) | V::N(_) => lim(s, v),
            _ => Err("type".into()),
        },
        S::Bool => match v {
            V::Bool(_) => Ok(()),
            _ => Err("type".into()),
        },
        S::Bytes { .. } => match v {
            V::B(_) => lim(s, v),
            _ => Err("type".into()),
        },
        S::Text { .. } | S::TextTrunc { .. } | S::TextDropIfLonger { .. } | S::TextDiscard => match v {
            V::T(b) => {
                if std::str::from_utf8(b).is_err() {
                    return Err("utf8".into());
                }
                lim(s, v)
            }
            _ => Err("type".into()),
        },
        S::Array { of, .. } => match v {
            V::A(a) => {
                lim(s, v)?;
                for x in a {
                    conforms(of, x)?;
                }
                Ok(())
            }
            _ => Err("type".into()),
        },
        S::Params => match v {
            V::A(a) => {
                for x in a {
                    conforms(schema::param_entry(), x)?;
                }
                Ok(())
            }
            _ => Err("type".into()),
        },
        S::Formats => match v {
            V::A(a) => {
                for x in a {
                    match x {
                        V::T(b) if std::str::from_utf8(b).is_ok() => {}
                        _ => return Err("format entry".into()),
                    }
                }
                Ok(())
            }
            _ => Err("type".into()),
        },
        S::CoseEcdh => {
            // exact key order 1, 3, -1, -2, -3 (alg optional), constants as RFC 8152 / CTAP
            let m = v.as_map().ok_or("type")?;
            let keys: Vec<i128> = m.iter().map(|(k, _)| k.as_int().unwrap_or(i128::MAX)).collect();
            if keys != [1, 3, -1, -2, -3] && keys != [1, -1, -2, -3] {
                return Err("cose members".into());
            }
            conforms_map(s, v)
        }
        S::Map(_) => conforms_map(s, v),
    }
}

fn lim(s: &S, v: &V) -> Result<(), String> {
    match within_limit(s, v) {
        Some(true) | None => Ok(()),
        Some(false) => Err("limit".into()),
    }
}

fn conforms_map(s: &S, v: &V) -> Result<(), String> {
    let ms = as_map_schema(s).ok_or("schema")?;
    let m = v.as_map().ok_or("type")?;
    let mut seen: Vec<&'static str> = Vec::new();
    for (k, x) in m {
        match ms.members.iter().find(|mm| mm.key == *k || mm.aliases.iter().any(|a| *k == V::text(a))) {
            Some(mem) => {
                if seen.contains(&mem.name) {
                    return Err("duplicate (alias)".into());
                }
                seen.push(mem.name);
                conforms(&mem.s, x)?;
            }
            None => {
                // unknown members: only text keys, only in the maps the specifications let
                // platforms extend; their values are canonical by the outer parse
                if !(ms.extensible && matches!(k, V::T(_))) {
                    return Err("unknown member in a closed map".into());
                }
            }
        }
    }
    for mem in &ms.members {
        if mem.required && !seen.contains(&mem.name) {
            return Err("missing required".into());
        }
    }
    Ok(())
}

/// Judge one arbitrary input.  Returns the list of violations (signature, detail).
pub fn judge_bytes(bytes: &[u8]) -> Vec<(String, String)> {
    let mut out = Vec::new();
    let (d, problems) = decode_checked(bytes);
    match &d {
        Decoded::Panic(p) => out.push((format!("C04|panic|{}", crate::report::panic_site(p)), p.clone())),
        Decoded::Err(s) if !matches!(*s, 0x01 | 0x12 | 0x14) => out.push((
            format!("C04|status-outside-set|{}", status_name(*s)),
            format!("rejection status {}", status_name(*s)),
        )),
        _ => {}
    }
    for p in problems {
        if !p.starts_with("OBS ") {
            out.push((format!("C04|invariant|{}", p.split(' ').take(3).collect::<Vec<_>>().join(" ")), p));
        }
    }
    // determinism
    let copy = bytes.to_vec();
    let (d2, _) = decode_checked(&copy);
    if d != d2 {
        out.push(("C04|nondeterministic".into(), format!("{:?} vs {:?}", d, d2)));
    }
    // faithful decode of everything the reference validator accepts
    if bytes.len() >= 2 {
        if let Some(s) = schema::command_schema(bytes[0]) {
            if let Ok(v) = parse_canonical(&bytes[1..]) {
                if conforms(&s, &v).is_ok() {
                    if let Some(exp) = normalize(&s, &v) {
                        let want = crate::project::variant_for_cmd(bytes[0]);
                        match &d {
                            Decoded::Ok(name, got) => {
                                if *name != want {
                                    out.push(("C01|wrong-variant".into(), format!("{} instead of {}", name, want)));
                                } else if let Some((path, what)) = vdiff(&exp, got, "") {
                                    out.push((
                                        format!("C01|value|{}", crate::util::stable_path(&path)),
                                        format!("at {}: {}; sent {}", path, what, v.diag()),
                                    ));
                                }
                            }
                            Decoded::Err(e) => out.push((
                                format!("C01|rejected|{}", status_name(*e)),
                                format!("well-formed message rejected with {}; sent {}", status_name(*e), v.diag()),
                            )),
                            Decoded::Panic(_) => {}
                        }
                    }
                }
            }
        }
    }
    out
}

// ------------------------------------------------------------------------------------------------
// encode side: the fuzzer's bytes are the *tape* the response generators read their choices and
// values from, so that comparison feedback from inside the crate (`== 1024`, ...) can steer them

pub fn judge_encode(tape: &[u8]) -> Vec<(String, String)> {
    use crate::resp::{expected_bytes, gen_response, Ctl, KINDS};
    let mut out = Vec::new();
    if tape.len() < 4 {
        return out;
    }
    let mut rng = crate::rng::Rng::from_tape(tape);
    let (kind, _) = KINDS[rng.usize(7)]; // the kinds with members
    let mask = rng.u64();
    let mut c = Ctl::new(&mut rng);
    c.any_alg = true;
    c.top_mask = Some(mask);
    c.small = true;
    let (resp, model) = gen_response(kind, &mut c);
    let exp = expected_bytes(&model);
    match crate::mon::c02::serialize(&resp) {
        Ok(got) => {
            if got != exp {
                let (what, detail) = crate::mon::c02::explain(&exp, &got);
                out.push((format!("C02|{}|{}", kind, what), format!("{}; expected {} got {}", detail, crate::cbor::hex(&exp[..exp.len().min(200)]), crate::cbor::hex(&got[..got.len().min(200)]))));
            }
            if got.len() > 1 {
                if let Err(e) = parse_canonical(&got[1..]) {
                    out.push((format!("C03|{}|{}", kind, e.rule), format!("not canonical: {} at {}: {}", e.rule, e.offset, crate::cbor::hex(&got[..got.len().min(200)]))));
                }
            }
        }
        Err(p) => out.push((format!("C02|{}|panic|{}", kind, crate::report::panic_site(&p)), p)),
    }
    out
}

/// round trips of the bidirectional types, canonical bytes generated from the tape (lossless domain)
pub fn judge_roundtrip(tape: &[u8]) -> Vec<(String, String)> {
    use crate::mon::c15::{gen_lossless, rt_named, schema_table, Rt};
    use crate::resp::Ctl;
    let mut out = Vec::new();
    if tape.len() < 4 {
        return out;
    }
    let mut rng = crate::rng::Rng::from_tape(tape);
    let table = schema_table();
    let which = rng.usize(table.len() + 4);
    let (name, bytes): (&str, Vec<u8>) = if which < table.len() {
        let (name, s) = &table[which];
        let i = rng.below(64);
        (*name, gen_lossless(s, &mut rng, i, schema::n_optional(s)))
    } else {
        let mask = rng.u64();
        let mut c = Ctl::new(&mut rng);
        c.top_mask = Some(mask);
        c.small = true;
        match which - table.len() {
            0 => ("get_info::Response", crate::cbor::encode(&crate::resp::gen_get_info(&mut c).1)),
            1 => ("client_pin::Response", crate::cbor::encode(&crate::resp::gen_client_pin(&mut c).1)),
            2 => ("large_blobs::Response", crate::cbor::encode(&crate::resp::gen_large_blobs(&mut c).1)),
            _ => ("CtapOptions", crate::cbor::encode(&crate::resp::gen_ctap_options(&mut c).1)),
        }
    };
    let mut results = vec![(name, rt_named(name, &bytes))];
    results.extend(crate::mon::c15::rt_dispatch(name, &bytes));
    for (name, r) in results {
    match r {
        Ok(Rt::Done { reencoded, redecoded_equal }) => {
            if reencoded != bytes {
                out.push((format!("C15|{}|decode-encode-differs", name), format!("{} -> {}", crate::cbor::hex(&bytes[..bytes.len().min(200)]), crate::cbor::hex(&reencoded[..reencoded.len().min(200)]))));
            }
            if redecoded_equal != Ok(true) {
                out.push((format!("C15|{}|encode-decode-not-equal", name), format!("{:?}", redecoded_equal)));
            }
        }
        Ok(Rt::Rejected(e)) => out.push((format!("C15|{}|canonical-bytes-rejected", name), format!("{} rejected: {}", crate::cbor::hex(&bytes[..bytes.len().min(200)]), e))),
        Ok(Rt::SerErr(e)) => out.push((format!("C15|{}|serialize-error", name), e)),
        Err(p) => out.push((format!("C15|{}|panic|{}", name, crate::report::panic_site(&p)), p)),
    }
    }
    out
}

// ------------------------------------------------------------------------------------------------
// CTAP1 APDUs (C08)

pub fn judge_apdu(apdu: &[u8]) -> Vec<(String, String)> {
    use crate::mon::c08::{reference, via_command, via_view, Exp, Got};
    let mut out = Vec::new();
    // how ISO 7816 frames the bytes is the dependency's business; what CTAP1 makes of the framed
    // command is judged against the reference decision
    let view = match iso7816::command::CommandView::try_from(apdu) {
        Ok(v) => v,
        Err(_) => return out,
    };
    let cla = view.class().into_inner();
    let ins: u8 = view.instruction().into();
    let exp = reference(cla, ins, view.p1, view.data());
    for entry in 0..2 {
        let got = match crate::report::guard(|| if entry == 0 { via_view(apdu) } else { via_command::<7609>(apdu) }) {
            Ok(g) => g,
            Err(p) => {
                out.push((format!("C08|panic|{}", crate::report::panic_site(&p)), p));
                continue;
            }
        };
        let data = view.data();
        let ok = match (&exp, &got) {
            (_, Got::NotAnApdu) => true,
            (Exp::Err(a), Got::Err(b)) => a == b,
            (Exp::Version, Got::Version) => true,
            (Exp::Register, Got::Register { ch, app, .. }) => ch[..] == data[..32] && app[..] == data[32..64],
            (Exp::Authenticate(p), Got::Authenticate { cb, ch, app, kh, .. }) => cb == p && ch[..] == data[..32] && app[..] == data[32..64] && kh[..] == data[65..],
            _ => false,
        };
        if !ok {
            out.push((
                format!("C08|expected={:?}|entry{}", std::mem::discriminant(&exp), entry),
                format!("cla={:#04x} ins={:#04x} p1={:#04x} data {} bytes: expected {:?} got {:?}", cla, ins, view.p1, data.len(), exp, got),
            ));
        }
    }
    out
}

// ------------------------------------------------------------------------------------------------
// identifier tables (C18)

pub fn judge_idents(bytes: &[u8]) -> Vec<(String, String)> {
    use crate::resp::{EXTENSIONS, FORMATS, TRANSPORTS, VERSIONS};
    use ctap_types::ctap2::{self, get_info};
    use ctap_types::serde::cbor_deserialize;
    let mut out = Vec::new();
    let Ok(s) = std::str::from_utf8(bytes) else { return out };
    let enc = crate::cbor::encode(&V::text(s));
    macro_rules! table {
        ($ty:ty, $table:expr, $name:expr) => {{
            let listed = $table.iter().find(|(_, t)| *t == s).map(|(v, _)| *v);
            let got = <$ty>::try_from(s).ok();
            let dec = cbor_deserialize::<$ty>(&enc).ok();
            if got != listed || dec != listed {
                out.push((
                    format!("C18|{}|{}", $name, if listed.is_some() { "listed-rejected" } else { "accepts-unlisted" }),
                    format!("{:?}: try_from -> {:?}, decode -> {:?}, table says {:?}", s, got, dec, listed),
                ));
            }
        }};
    }
    table!(get_info::Version, VERSIONS, "Version");
    table!(get_info::Extension, EXTENSIONS, "Extension");
    table!(get_info::Transport, TRANSPORTS, "Transport");
    table!(ctap2::AttestationStatementFormat, FORMATS, "AttestationStatementFormat");
    out
}

// ------------------------------------------------------------------------------------------------
// `arbitrary` generators (C19)

#[cfg(feature = "arb")]
pub fn judge_arb(bytes: &[u8]) -> Vec<(String, String)> {
    use arbitrary::{Arbitrary, Unstructured};
    use ctap_types::{authenticator, ctap1, ctap2};
    let mut out = Vec::new();
    fn check2(req: &ctap2::Request, out: &mut Vec<(String, String)>) {
        for (name, b, cap) in crate::project::text_fields(req) {
            if std::str::from_utf8(&b).is_err() {
                out.push((format!("C19|ctap2|ill-formed-utf8|{}", name), crate::cbor::hex(&b)));
            }
            if b.len() > cap {
                out.push((format!("C19|ctap2|over-capacity|{}", name), format!("{} > {}", b.len(), cap)));
            }
        }
        let _ = crate::project::p_request(req);
        let _ = format!("{:?}", req);
        if req.clone() != *req {
            out.push(("C19|ctap2|clone-not-equal".into(), String::new()));
        }
        let mut m = crate::mock::Mock::default();
        use ctap_types::ctap2::Authenticator;
        let _ = m.call_ctap2(req);
        if m.log.len() != 1 {
            out.push(("C19|ctap2|dispatch".into(), format!("{:?}", m.log.iter().map(|l| l.0).collect::<Vec<_>>())));
        }
    }
    fn check1(req: &ctap1::Request, out: &mut Vec<(String, String)>) {
        let _ = format!("{:?}", req);
        if req.clone() != *req {
            out.push(("C19|ctap1|clone-not-equal".into(), String::new()));
        }
        let mut m = crate::mock::Mock::default();
        use ctap_types::ctap1::Authenticator;
        let _ = m.call_ctap1(req);
    }
    fn err_ok(which: &str, e: &arbitrary::Error, out: &mut Vec<(String, String)>) {
        if !matches!(e, arbitrary::Error::NotEnoughData) {
            out.push((format!("C19|{}|unexpected-error|{:?}", which, e), String::new()));
        }
    }
    macro_rules! run {
        ($call:expr, $which:expr, $ok:expr) => {{
            match crate::report::guard(|| $call) {
                Ok(Ok(req)) => $ok(&req, &mut out),
                Ok(Err(e)) => err_ok($which, &e, &mut out),
                Err(p) => out.push((format!("C19|{}|panic|{}", $which, crate::report::panic_site(&p)), p)),
            }
        }};
    }
    let both = |r: &authenticator::Request, out: &mut Vec<(String, String)>| match r {
        authenticator::Request::Ctap1(x) => check1(x, out),
        authenticator::Request::Ctap2(x) => check2(x, out),
    };
    run!(ctap2::Request::arbitrary(&mut Unstructured::new(bytes)), "ctap2", check2);
    run!(ctap2::Request::arbitrary_take_rest(Unstructured::new(bytes)), "ctap2(take_rest)", check2);
    run!(ctap1::Request::arbitrary(&mut Unstructured::new(bytes)), "ctap1", check1);
    run!(ctap1::Request::arbitrary_take_rest(Unstructured::new(bytes)), "ctap1(take_rest)", check1);
    run!(authenticator::Request::arbitrary(&mut Unstructured::new(bytes)), "combined", both);
    run!(authenticator::Request::arbitrary_take_rest(Unstructured::new(bytes)), "combined(take_rest)", both);
    out
}

#[cfg(not(feature = "arb"))]
pub fn judge_arb(_bytes: &[u8]) -> Vec<(String, String)> {
    Vec::new()
}
