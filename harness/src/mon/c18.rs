//! C18 — protocol identifier tables are exact: every listed name/number, nothing else.

use crate::cbor::{encode, V};
use crate::report::{guard, Rep};
use crate::resp::{EXTENSIONS, FORMATS, TRANSPORTS, VERSIONS};
use crate::rng::Rng;
use ctap_types::ctap1::ControlByte;
use ctap_types::ctap2::{self, client_pin, credential_management, get_info};
use ctap_types::serde::{cbor_deserialize, cbor_serialize};

/// single-character edits, case variants, prefixes, one-character extensions of a spelling
/// split an identifier into tokens at '_' / '-' (separator kept with the following token) and at
/// lower->upper case boundaries: "FIDO_2_1_PRE" -> ["FIDO", "_2", "_1", "_PRE"], "credProtect" ->
/// ["cred", "Protect"]
fn tokens(s: &str) -> Vec<String> {
    let mut out: Vec<String> = Vec::new();
    let mut cur = String::new();
    let mut prev_lower = false;
    for c in s.chars() {
        let boundary = c == '_' || c == '-' || (c.is_ascii_uppercase() && prev_lower);
        if boundary && !cur.is_empty() {
            out.push(std::mem::take(&mut cur));
        }
        cur.push(c);
        prev_lower = c.is_ascii_lowercase();
    }
    if !cur.is_empty() {
        out.push(cur);
    }
    out
}

/// identifiers composed from the pieces of the valid ones: suffixes, a piece of one name attached to
/// another, repeated pieces, prefix of one + suffix of another
fn compositions(s: &str, names: &[&str]) -> Vec<String> {
    let mut out = Vec::new();
    let ts = tokens(s);
    for k in 1..ts.len() {
        out.push(ts[k..].concat()); // drop leading pieces
        out.push(ts[k..].concat().trim_start_matches(|c| c == '_' || c == '-').to_string());
    }
    out.push(format!("{}{}", ts[0], s)); // repeated first piece
    if ts.len() > 1 {
        out.push(format!("{}{}", s, ts[ts.len() - 1])); // repeated last piece
    }
    for other in names {
        let to = tokens(other);
        for t in &to {
            out.push(format!("{}{}", s, t));
            out.push(format!("{}{}", t, s));
            out.push(format!("{}_{}", s, t.trim_start_matches(|c| c == '_' || c == '-')));
        }
        for i in 1..ts.len() {
            for j in 1..to.len() {
                out.push(format!("{}{}", ts[..i].concat(), to[j..].concat()));
            }
        }
    }
    out
}

fn neighbours(s: &str, rng: &mut Rng, all: bool) -> Vec<String> {
    let mut out = Vec::new();
    let chars: Vec<char> = s.chars().collect();
    let mut alphabet: Vec<char> = (0x20u8..0x7f).map(|b| b as char).collect();
    alphabet.extend(['\u{e9}', '\u{0}', '\u{7f}', '\u{2013}']);
    let pick = |rng: &mut Rng| -> Vec<char> {
        if all {
            alphabet.clone()
        } else {
            (0..6).map(|_| *rng.pick(&alphabet)).collect()
        }
    };
    for i in 0..chars.len() {
        // deletion
        let mut c = chars.clone();
        c.remove(i);
        out.push(c.iter().collect());
        // substitution
        for a in pick(rng) {
            if a != chars[i] {
                let mut c = chars.clone();
                c[i] = a;
                out.push(c.iter().collect());
            }
        }
        // transposition
        if i + 1 < chars.len() && chars[i] != chars[i + 1] {
            let mut c = chars.clone();
            c.swap(i, i + 1);
            out.push(c.iter().collect());
        }
        // case change of one character
        let mut c = chars.clone();
        c[i] = if c[i].is_ascii_lowercase() { c[i].to_ascii_uppercase() } else { c[i].to_ascii_lowercase() };
        if c != chars {
            out.push(c.iter().collect());
        }
        // proper prefixes
        out.push(chars[..i].iter().collect());
    }
    for i in 0..=chars.len() {
        for a in pick(rng) {
            let mut c = chars.clone();
            c.insert(i, a);
            out.push(c.iter().collect());
        }
    }
    out.push(s.to_uppercase());
    out.push(s.to_lowercase());
    out.push(format!("{} ", s));
    out.push(format!(" {}", s));
    out.push(format!("{}\0", s));
    out.push(String::new());
    // non-ASCII lookalikes whose code points agree with the spelling in their low byte / low 7 bits
    for i in 0..chars.len() {
        for add in [0x100u32, 0x200, 0x1000, 0x10000, 0x80] {
            if let Some(c) = char::from_u32(chars[i] as u32 + add) {
                let mut v = chars.clone();
                v[i] = c;
                out.push(v.iter().collect());
            }
        }
    }
    out.push(chars.iter().filter_map(|c| char::from_u32(*c as u32 + 0x100)).collect());
    // the spelling followed / preceded by filler whose length is a multiple of 256 (length
    // arithmetic in a narrow integer), and the spelling repeated
    for n in [256usize, 512, 65536] {
        out.push(format!("{}{}", s, "x".repeat(n)));
        out.push(format!("{}{}", "x".repeat(n), s));
        out.push(format!("{}{}", s, "\u{0}".repeat(n)));
    }
    out.push(format!("{}{}", s, s));
    // names colliding with the spelling under common hand-written string hashes (anagrams for
    // commutative folds, shifted pairs for the polynomial hashes with base 31 / 33 / 37)
    out.extend(crate::mutate::hash_lookalikes(s));
    for w in REAL_WORLD {
        out.push(w.to_string());
    }
    // every string literal of the source tree under test (an alias has to be spelled somewhere)
    for w in &crate::schema::literals().texts {
        out.push(w.clone());
    }
    for _ in 0..8 {
        let n = rng.usize(16);
        out.push(rng.ascii(n));
    }
    out
}

/// Identifiers that exist in the FIDO / WebAuthn world but are NOT members of these tables (other
/// versions, extensions, transports, attestation formats, and each table's names offered to the
/// other tables).
pub const REAL_WORLD: [&str; 56] = [
    "FIDO_2_2", "FIDO_2_3", "FIDO_2_1_POST", "U2F_V1", "U2F_V3", "FIDO_2", "FIDO2_0",
    "payment", "credProps", "credBlob", "largeBlob", "minPinLength", "hmac-secret-mc", "prf", "uvm", "appid",
    "appidExclude", "devicePubKey", "credentialProtectionPolicy", "hmacCreateSecret", "hmacGetSecret", "txAuthSimple",
    "ble", "internal", "hybrid", "smart-card", "cable", "lightning", "bluetooth", "USB", "NFC",
    "tpm", "android-key", "android-safetynet", "fido-u2f", "apple", "compound", "self", "basic", "None", "PACKED",
    "FIDO_2_0", "FIDO_2_1", "FIDO_2_1_PRE", "U2F_V2", "credProtect", "hmac-secret", "largeBlobKey", "thirdPartyPayment",
    "nfc", "usb", "none", "packed", "public-key", "rk", "up",
];

macro_rules! text_table {
    ($rep:expr, $rng:expr, $ty:ty, $table:expr, $name:expr) => {{
        let table = $table;
        // every variant both directions, through From/TryFrom and through the codec
        for (v, s) in table.iter() {
            if !$rep.begin(&format!("{}/valid", $name)) {
                continue;
            }
            $rep.input(s.as_bytes(), true);
            let spelled: &str = (*v).into();
            if spelled != *s {
                $rep.violation(&format!("C18|{}|spelling|{}", $name, s), format!("{:?} spells {:?}, specification says {:?}", v, spelled, s), s.as_bytes());
            }
            match <$ty>::try_from(*s) {
                Ok(x) if x == *v => {}
                other => $rep.violation(&format!("C18|{}|lookup|{}", $name, s), format!("{:?} looked up gives {:?}", s, other.ok()), s.as_bytes()),
            }
            let b = encode(&V::text(s));
            match cbor_deserialize::<$ty>(&b) {
                Ok(x) if x == *v => {}
                other => $rep.violation(&format!("C18|{}|decode|{}", $name, s), format!("decoding {:?} gives {:?}", s, other.ok()), &b),
            }
            let mut buf = [0u8; 64];
            match cbor_serialize(v, &mut buf) {
                Ok(out) if out == &b[..] => {}
                other => $rep.violation(&format!("C18|{}|encode|{}", $name, s), format!("{:?} encodes to {:?}", v, other.map(|o| crate::cbor::hex(o))), &b),
            }
            // the same characters carried by another CBOR type are not the identifier (S175)
            for (what, other) in [
                ("byte-string", encode(&V::B(s.as_bytes().to_vec()))),
                ("array-of-one", encode(&V::A(vec![V::text(s)]))),
                ("tagged-text", [&[0xc0u8][..], &b[..]].concat()),
                ("non-minimal-text", [&[0x78u8, s.len() as u8][..], s.as_bytes()].concat()),
            ] {
                $rep.input(&other, true);
                if let Ok(Ok(x)) = guard(|| cbor_deserialize::<$ty>(&other)) {
                    $rep.violation(&format!("C18|{}|accepts-unlisted|{}", $name, what), format!("{} {} decoded as {:?}", what, crate::cbor::hex(&other), x), &other);
                }
            }
        }
        // distinct identifiers never share a spelling
        for i in 0..table.len() {
            for j in (i + 1)..table.len() {
                let a: &str = table[i].0.into();
                let b: &str = table[j].0.into();
                if a == b || table[i].0 == table[j].0 {
                    $rep.violation(&format!("C18|{}|shared-spelling", $name), format!("{:?} and {:?}", table[i].0, table[j].0), &[]);
                }
            }
        }
        // everything else is rejected
        for (_, s) in table.iter() {
            let all = $rep.thorough();
            let names: Vec<&str> = table.iter().map(|(_, t)| *t).collect();
            let mut cands = neighbours(s, $rng, all);
            cands.extend(compositions(s, &names));
            for cand in cands {
                if table.iter().any(|(_, t)| *t == cand) {
                    continue;
                }
                if !$rep.begin(&format!("{}/invalid-neighbour", $name)) {
                    continue;
                }
                $rep.input(cand.as_bytes(), true);
                $rep.sample(|| format!("{} must reject {:?} (neighbour of {:?})", $name, cand, s));
                if let Ok(x) = <$ty>::try_from(cand.as_str()) {
                    $rep.violation(&format!("C18|{}|accepts-unlisted|try_from", $name), format!("{:?} accepted as {:?}", cand, x), cand.as_bytes());
                }
                let b = encode(&V::text(&cand));
                if let Ok(x) = cbor_deserialize::<$ty>(&b) {
                    $rep.violation(&format!("C18|{}|accepts-unlisted|decode", $name), format!("{:?} decoded as {:?}", cand, x), &b);
                }
            }
        }
    }};
}

fn int_probes() -> Vec<u64> {
    let mut v: Vec<u64> = (0..=300).collect();
    v.extend([65535, 65536, 65537, 0xffff_ffff, 0x1_0000_0000, 0x1_0000_0001, u64::MAX - 1, u64::MAX]);
    for base in [0x100u64, 0x1_0000, 0x1_0000_0000, 0x1_0000_0000_0000] {
        for k in 1..=9 {
            v.push(base + k);
            v.push(base * k);
        }
    }
    v
}

pub fn run(rep: &mut Rep) {
    if rep.shard != 0 {
        // the tables are small: one shard enumerates them completely
        return;
    }
    let mut rng = Rng::derive(rep.seed, "c18", 0);
    text_table!(rep, &mut rng, get_info::Version, VERSIONS, "Version");
    text_table!(rep, &mut rng, get_info::Extension, EXTENSIONS, "Extension");
    text_table!(rep, &mut rng, get_info::Transport, TRANSPORTS, "Transport");
    text_table!(rep, &mut rng, ctap2::AttestationStatementFormat, FORMATS, "AttestationStatementFormat");

    // ---- numeric tables through the codec: integers 0..=300 and the encoding thresholds
    let pin: [(u64, &str); 8] = [
        (1, "GetRetries"),
        (2, "GetKeyAgreement"),
        (3, "SetPin"),
        (4, "ChangePin"),
        (5, "GetPinToken"),
        (6, "GetPinUvAuthTokenUsingUvWithPermissions"),
        (7, "GetUVRetries"),
        (9, "GetPinUvAuthTokenUsingPinWithPermissions"),
    ];
    let cm: [(u64, &str); 7] = [
        (1, "GetCredsMetadata"),
        (2, "EnumerateRpsBegin"),
        (3, "EnumerateRpsGetNextRp"),
        (4, "EnumerateCredentialsBegin"),
        (5, "EnumerateCredentialsGetNextCredential"),
        (6, "DeleteCredential"),
        (7, "UpdateUserInformation"),
    ];
    let cp: [(u64, &str); 3] = [(1, "Optional"), (2, "OptionalWithCredentialIdList"), (3, "Required")];
    for n in int_probes() {
        for neg in [false, true] {
            let v = if neg { V::N(n) } else { V::U(n) };
            let b = encode(&v);
            if !rep.begin("numeric-enums/decode") {
                continue;
            }
            rep.input(&b, true);
            macro_rules! num_table {
                ($ty:ty, $table:expr, $name:expr) => {{
                    let want = if neg { None } else { $table.iter().find(|(k, _)| *k == n).map(|(_, s)| *s) };
                    let got = guard(|| cbor_deserialize::<$ty>(&b).ok().map(|x| format!("{:?}", x)));
                    match got {
                        Ok(g) => {
                            if g.as_deref() != want {
                                rep.violation(
                                    &format!("C18|{}|number|{}", $name, if want.is_some() { "listed" } else { "unlisted" }),
                                    format!("{} decodes to {:?}, specification says {:?}", v.diag(), g, want),
                                    &b,
                                );
                            }
                            if let (Some(_), false) = (&g, neg) {
                                // and back
                                if let Ok(x) = cbor_deserialize::<$ty>(&b) {
                                    let mut buf = [0u8; 16];
                                    match cbor_serialize(&x, &mut buf) {
                                        Ok(out) if out == &b[..] => {}
                                        other => rep.violation(&format!("C18|{}|number-encode", $name), format!("{:?} encodes to {:?}", x, other.map(|o| crate::cbor::hex(o))), &b),
                                    }
                                }
                            }
                        }
                        Err(p) => rep.violation(&format!("C18|{}|panic", $name), p, &b),
                    }
                }};
            }
            num_table!(client_pin::PinV1Subcommand, pin, "PinV1Subcommand");
            num_table!(credential_management::Subcommand, cm, "Subcommand");
            num_table!(credential_management::CredentialProtectionPolicy, cp, "CredentialProtectionPolicy");
        }
    }
    // ---- byte-valued tables: all 256 values
    for b in 0..=255u8 {
        if !rep.begin("byte-tables/all-256") {
            continue;
        }
        rep.input(&[b, 0x18], true);
        // credential protection policy
        let want = cp.iter().find(|(k, _)| *k == b as u64).map(|(_, s)| *s);
        let got = credential_management::CredentialProtectionPolicy::try_from(b);
        match (&got, want) {
            (Ok(x), Some(w)) if format!("{:?}", x) == w && *x as u8 == b => {}
            (Err(e), None) if *e == ctap2::Error::InvalidParameter => {}
            _ => rep.violation("C18|CredentialProtectionPolicy|try_from-u8", format!("{} -> {:?}, specification says {:?}", b, got, want), &[b]),
        }
        // U2F control byte
        let want = match b {
            0x03 => Some(ControlByte::EnforceUserPresenceAndSign),
            0x07 => Some(ControlByte::CheckOnly),
            0x08 => Some(ControlByte::DontEnforceUserPresenceAndSign),
            _ => None,
        };
        let got = ControlByte::try_from(b).ok();
        if got != want || got.map(|g| g as u8 != b).unwrap_or(false) {
            rep.violation("C18|ControlByte|try_from-u8", format!("{:#04x} -> {:?}, specification says {:?}", b, got, want), &[b]);
        }
    }
    // ---- permission bits
    if rep.begin("permission-bits") {
        use client_pin::Permissions as P;
        for (p, bit, name) in [
            (P::MAKE_CREDENTIAL, 0x01u8, "mc"),
            (P::GET_ASSERTION, 0x02, "ga"),
            (P::CREDENTIAL_MANAGEMENT, 0x04, "cm"),
            (P::BIO_ENROLLMENT, 0x08, "be"),
            (P::LARGE_BLOB_WRITE, 0x10, "lbw"),
            (P::AUTHENTICATOR_CONFIGURATION, 0x20, "acfg"),
        ] {
            if p.bits() != bit {
                rep.violation(&format!("C18|Permissions|{}", name), format!("{} is {:#04x}, specification says {:#04x}", name, p.bits(), bit), &[bit]);
            }
        }
        if P::all().bits() != 0x3f {
            rep.violation("C18|Permissions|all", format!("all() = {:#04x}", P::all().bits()), &[]);
        }
    }
    // ---- CTAP status codes
    if rep.begin("status-codes") {
        use ctap2::Error as E;
        let table: [(E, u8, &str); 56] = [
            (E::Success, 0x00, "Success"),
            (E::InvalidCommand, 0x01, "InvalidCommand"),
            (E::InvalidParameter, 0x02, "InvalidParameter"),
            (E::InvalidLength, 0x03, "InvalidLength"),
            (E::InvalidSeq, 0x04, "InvalidSeq"),
            (E::Timeout, 0x05, "Timeout"),
            (E::ChannelBusy, 0x06, "ChannelBusy"),
            (E::LockRequired, 0x0a, "LockRequired"),
            (E::InvalidChannel, 0x0b, "InvalidChannel"),
            (E::CborUnexpectedType, 0x11, "CborUnexpectedType"),
            (E::InvalidCbor, 0x12, "InvalidCbor"),
            (E::MissingParameter, 0x14, "MissingParameter"),
            (E::LimitExceeded, 0x15, "LimitExceeded"),
            (E::UnsupportedExtension, 0x16, "UnsupportedExtension"),
            (E::FingerprintDatabaseFull, 0x17, "FingerprintDatabaseFull"),
            (E::LargeBlobStorageFull, 0x18, "LargeBlobStorageFull"),
            (E::CredentialExcluded, 0x19, "CredentialExcluded"),
            (E::Processing, 0x21, "Processing"),
            (E::InvalidCredential, 0x22, "InvalidCredential"),
            (E::UserActionPending, 0x23, "UserActionPending"),
            (E::OperationPending, 0x24, "OperationPending"),
            (E::NoOperations, 0x25, "NoOperations"),
            (E::UnsupportedAlgorithm, 0x26, "UnsupportedAlgorithm"),
            (E::OperationDenied, 0x27, "OperationDenied"),
            (E::KeyStoreFull, 0x28, "KeyStoreFull"),
            (E::NotBusy, 0x29, "NotBusy"),
            (E::NoOperationPending, 0x2a, "NoOperationPending"),
            (E::UnsupportedOption, 0x2b, "UnsupportedOption"),
            (E::InvalidOption, 0x2c, "InvalidOption"),
            (E::KeepaliveCancel, 0x2d, "KeepaliveCancel"),
            (E::NoCredentials, 0x2e, "NoCredentials"),
            (E::UserActionTimeout, 0x2f, "UserActionTimeout"),
            (E::NotAllowed, 0x30, "NotAllowed"),
            (E::PinInvalid, 0x31, "PinInvalid"),
            (E::PinBlocked, 0x32, "PinBlocked"),
            (E::PinAuthInvalid, 0x33, "PinAuthInvalid"),
            (E::PinAuthBlocked, 0x34, "PinAuthBlocked"),
            (E::PinNotSet, 0x35, "PinNotSet"),
            (E::PinRequired, 0x36, "PinRequired"),
            (E::PinPolicyViolation, 0x37, "PinPolicyViolation"),
            (E::PinTokenExpired, 0x38, "PinTokenExpired"),
            (E::RequestTooLarge, 0x39, "RequestTooLarge"),
            (E::ActionTimeout, 0x3a, "ActionTimeout"),
            (E::UpRequired, 0x3b, "UpRequired"),
            (E::UvBlocked, 0x3c, "UvBlocked"),
            (E::IntegrityFailure, 0x3d, "IntegrityFailure"),
            (E::InvalidSubcommand, 0x3e, "InvalidSubcommand"),
            (E::UvInvalid, 0x3f, "UvInvalid"),
            (E::UnauthorizedPermission, 0x40, "UnauthorizedPermission"),
            (E::Other, 0x7f, "Other"),
            (E::SpecLast, 0xdf, "SpecLast"),
            (E::ExtensionFirst, 0xe0, "ExtensionFirst"),
            (E::ExtensionLast, 0xef, "ExtensionLast"),
            (E::VendorFirst, 0xf0, "VendorFirst"),
            (E::VendorLast, 0xff, "VendorLast"),
            (E::Success, 0x00, "Success"),
        ];
        for (e, n, name) in table.iter() {
            if *e as u8 != *n {
                rep.violation(&format!("C18|status|{}", name), format!("{} is {:#04x}, specification says {:#04x}", name, *e as u8, n), &[*n]);
            }
            rep.count("status_codes_checked", 1);
        }
        for i in 0..table.len() - 1 {
            for j in (i + 1)..table.len() - 1 {
                if table[i].0 as u8 == table[j].0 as u8 {
                    rep.violation("C18|status|shared-number", format!("{} and {}", table[i].2, table[j].2), &[]);
                }
            }
        }
    }
}
