//! C11 — the command-byte table is total, exact and invertible.  All 256 bytes, exhaustively.

use crate::cbor::encode;
use crate::report::{guard, Rep};
use crate::rng::Rng;
use crate::schema::{self, gen_message, G};
use crate::util::{decode, status_name, Decoded};
use ctap_types::ctap2::{Operation, VendorOperation};

const ASSIGNED: [u8; 13] = [0x01, 0x02, 0x04, 0x06, 0x07, 0x08, 0x09, 0x0a, 0x0b, 0x0c, 0x0d, 0x40, 0x41];
const PARAMLESS: [(u8, &str); 4] = [(0x04, "GetInfo"), (0x07, "Reset"), (0x08, "GetNextAssertion"), (0x0b, "Selection")];
const PARAM: [u8; 6] = [0x01, 0x02, 0x06, 0x0a, 0x0c, 0x41];
const UNSUPPORTED: [u8; 3] = [0x09, 0x0d, 0x40];

fn is_vendor(b: u8) -> bool {
    (0x42..=0x7f).contains(&b)
}

pub fn run(rep: &mut Rep) {
    let seed = rep.seed;
    // ---- conversion tables (cheap: every shard checks the full table, counted once)
    let mut ops: Vec<(u8, Operation)> = Vec::new();
    for b in 0..=255u8 {
        if rep.shard != 0 || !rep.begin("table/operation-try-from") {
            continue;
        }
        let r = guard(|| Operation::try_from(b));
        let should = ASSIGNED.contains(&b) || is_vendor(b);
        match r {
            Ok(Ok(op)) => {
                if !should {
                    rep.violation("C11|table|unassigned-byte-recognised", format!("byte 0x{:02x} converts to {:?}", b, op), &[b]);
                }
                let back = u8::from(op);
                if back != b {
                    rep.violation(
                        "C11|table|round-trip",
                        format!("byte 0x{:02x} -> {:?} -> 0x{:02x}", b, op, back),
                        &[b],
                    );
                }
                if op.into_u8() != back {
                    rep.violation("C11|table|into_u8-differs", format!("{:?}", op), &[b]);
                }
                ops.push((b, op));
            }
            Ok(Err(())) => {
                if should {
                    rep.violation("C11|table|assigned-byte-rejected", format!("byte 0x{:02x} is not recognised", b), &[b]);
                }
            }
            Err(p) => rep.violation("C11|table|panic", p, &[b]),
        }
        // VendorOperation on its own
        let v = guard(|| VendorOperation::try_from(b));
        match v {
            Ok(Ok(vo)) => {
                if !(0x40..=0x7f).contains(&b) {
                    rep.violation("C11|vendor|outside-range-accepted", format!("VendorOperation accepts 0x{:02x}", b), &[b]);
                }
                if u8::from(vo) != b {
                    rep.violation("C11|vendor|round-trip", format!("0x{:02x} -> {:?} -> 0x{:02x}", b, vo, u8::from(vo)), &[b]);
                }
                if b == 0x40 || b == 0x41 {
                    rep.count("obs/VendorOperation-type-accepts-0x40-0x41 (never reachable as a vendor command through the decoder)", 1);
                }
            }
            Ok(Err(())) => {
                if is_vendor(b) {
                    rep.violation("C11|vendor|in-range-rejected", format!("VendorOperation rejects 0x{:02x}", b), &[b]);
                }
            }
            Err(p) => rep.violation("C11|vendor|panic", p, &[b]),
        }
    }
    // injectivity: no two bytes share an operation
    for i in 0..ops.len() {
        for j in (i + 1)..ops.len() {
            if ops[i].1 == ops[j].1 {
                rep.violation(
                    "C11|table|two-bytes-one-operation",
                    format!("0x{:02x} and 0x{:02x} both convert to {:?}", ops[i].0, ops[j].0, ops[i].1),
                    &[ops[i].0, ops[j].0],
                );
            }
        }
    }
    if rep.shard == 0 {
        rep.count("operations_recognised", ops.len() as u64);
    }

    // ---- decoder behaviour per first byte with many tails
    let mut rng = Rng::derive(seed, "c11-tails", 0);
    let mut tails: Vec<(String, Vec<u8>)> = vec![("empty".into(), vec![])];
    let mut one_valid: Vec<u8> = Vec::new();
    for (c, name, s) in schema::commands() {
        let mut g = G::new(&mut rng);
        g.small = true;
        let body = encode(&gen_message(&s, &mut g));
        if c == 0x0a {
            one_valid = body.clone();
        }
        tails.push((format!("valid-{}", name), body));
    }
    for cut in 0..one_valid.len() {
        tails.push(("truncated-valid".into(), one_valid[..cut].to_vec()));
    }
    for n in [1usize, 2, 64, 7608, 7609, 7610, 8192, 70000] {
        tails.push(("ff-fill".into(), vec![0xff; n]));
        tails.push(("00-fill".into(), vec![0x00; n]));
    }
    tails.push(("a0".into(), vec![0xa0]));
    tails.push(("f6".into(), vec![0xf6]));
    // one byte value repeated (deep nesting for 0x80..=0xBF, runs of every head kind), and runs of
    // random bytes of a single major type
    for v in 0..=255u8 {
        for k in [1usize, 2, 3, 8, 9, 10, 16, 33, 64, 300] {
            tails.push(("repeated-byte".into(), vec![v; k]));
        }
    }
    for major in 0..8u8 {
        for k in [9usize, 20, 40] {
            for _ in 0..3 {
                tails.push(("single-major-type-run".into(), (0..k).map(|_| (major << 5) | rng.below(32) as u8).collect()));
            }
        }
    }
    // complete CTAP2 messages wrapped the way other layers frame them (the command byte under test
    // then plays the role of an APDU class byte, a channel id byte, a length ...): ISO 7816 short
    // and extended APDUs (NFCCTAP_MSG is 80 10 00 00 Lc ..), CTAPHID initialisation packets, plain
    // length prefixes, and the bare inner message
    let mut inners: Vec<Vec<u8>> = vec![vec![0x04], vec![0x07], vec![0x08], vec![0x0b], vec![0x04, 0xa0]];
    for (c, _, s) in schema::commands() {
        if matches!(c, 0x01 | 0x02 | 0x06) {
            let mut g = G::new(&mut rng);
            g.small = true;
            g.top_mask = Some(0);
            let mut m = vec![c];
            m.extend_from_slice(&encode(&gen_message(&s, &mut g)));
            inners.push(m);
        }
    }
    for inner in &inners {
        let l = inner.len();
        let l16 = (l as u16).to_be_bytes();
        let mut env: Vec<Vec<u8>> = vec![inner.clone(), [&l16[..], inner].concat()];
        for ins in [0x10u8, 0x00, 0x01, 0x02, 0x03] {
            env.push([&[ins, 0, 0, 0, l16[0], l16[1]][..], inner].concat());
            env.push([&[ins, 0, 0, 0, l16[0], l16[1]][..], inner, &[0, 0]].concat());
            if l <= 255 {
                env.push([&[ins, 0, 0, l as u8][..], inner].concat());
                env.push([&[ins, 0, 0, l as u8][..], inner, &[0]].concat());
                env.push([&[ins, 0x80, 0, l as u8][..], inner].concat());
            }
        }
        if l <= 255 {
            env.push([&[l as u8][..], inner].concat());
        }
        for cid in [[0xffu8, 0xff, 0xff], [0, 0, 1], [0x12, 0x34, 0x56]] {
            env.push([&cid[..], &[0x90, l16[0], l16[1]][..], inner].concat());
        }
        for e in env {
            tails.push(("framed-inner-message".into(), e));
        }
    }
    let n_random = if rep.thorough() { 20_000 } else { 1000 };
    let mut case = 0u64;
    for b in 0..=255u8 {
        let mut all = tails.clone();
        let mut r2 = Rng::derive(seed, "c11-random", b as u64);
        for _ in 0..n_random {
            let n = match r2.below(4) {
                0 => r2.usize(8),
                1 => r2.usize(64),
                _ => r2.usize(600),
            };
            all.push(("random".into(), r2.bytes(n)));
        }
        for (tk, tail) in all {
            case += 1;
            if !rep.mine(case) {
                continue;
            }
            let mut msg = vec![b];
            msg.extend_from_slice(&tail);
            if !rep.begin(&format!("decode/{}", tk)) {
                continue;
            }
            rep.input(&msg, true);
            let d = decode(&msg);
            let class = if let Some((_, name)) = PARAMLESS.iter().find(|x| x.0 == b) {
                // decodes from the byte alone whatever follows
                match &d {
                    Decoded::Ok(n, _) if n == name => None,
                    other => Some(format!("parameter-less command 0x{:02x} must decode to {} whatever follows, got {:?}", b, name, other)),
                }
            } else if is_vendor(b) {
                match &d {
                    Decoded::Ok("Vendor", v) if v.as_int() == Some(b as i128) => None,
                    other => Some(format!("vendor command 0x{:02x} must decode to Vendor(0x{:02x}), got {:?}", b, b, other)),
                }
            } else if PARAM.contains(&b) {
                match &d {
                    Decoded::Ok(n, _) if *n == crate::project::variant_for_cmd(b) => None,
                    Decoded::Err(e) if *e == 0x12 || *e == 0x14 => None,
                    other => Some(format!("supported command 0x{:02x}: unexpected {:?}", b, short(other))),
                }
            } else {
                // unsupported (09/0D/40) and unassigned bytes: InvalidCommand whatever follows
                match &d {
                    Decoded::Err(0x01) => None,
                    other => Some(format!(
                        "{} byte 0x{:02x} must be answered InvalidCommand whatever follows, got {:?}",
                        if UNSUPPORTED.contains(&b) { "recognised-but-unsupported" } else { "unassigned" },
                        b,
                        short(other)
                    )),
                }
            };
            rep.sample(|| format!("0x{:02x} + {} ({} bytes) -> {}", b, tk, tail.len(), short(&d)));
            if let Some(c) = class {
                let kind = if PARAMLESS.iter().any(|x| x.0 == b) {
                    "paramless"
                } else if is_vendor(b) {
                    "vendor"
                } else if PARAM.contains(&b) {
                    "param"
                } else {
                    "unsupported"
                };
                rep.violation(&format!("C11|decode|{}|0x{:02x}", kind, b), c, &msg[..msg.len().min(200)]);
            }
        }
    }
    // 0x41 decodes exactly like 0x0A: every single fault of well-formed seeds (missing required
    // members, wrong types, ...) must be answered identically under both command bytes
    let cm = schema::credential_management();
    let nf = rep.n(12, 3000);
    for _ in 0..nf * rep.nshards {
        case += 1;
        if !rep.mine(case) {
            continue;
        }
        let mut rng = Rng::derive(seed, "c11-alias-faults", case);
        let mut g = G::new(&mut rng);
        g.small = true;
        let v = gen_message(&cm, &mut g);
        let mut fs = Vec::new();
        crate::mon::c05::faults(0x0a, &cm, &v, &mut rng, &mut fs);
        for f in fs {
            if f.kind == "truncate" && f.bytes.len() % 3 != 0 {
                continue;
            }
            if f.bytes.is_empty() || !rep.begin(&format!("alias-0x41/fault-{}", f.kind)) {
                continue;
            }
            let mut b = f.bytes.clone();
            b[0] = 0x41;
            rep.input(&b, true);
            let (da, db) = (decode(&f.bytes), decode(&b));
            if da != db {
                rep.violation(
                    &format!("C11|alias|0x41-differs-from-0x0a|{}", f.kind),
                    format!("fault {} on {:?}: 0x0a -> {} ; 0x41 -> {}", f.kind, f.member, short(&da), short(&db)),
                    &b,
                );
            }
        }
    }
    let n = rep.n(400, 400_000);
    for _ in 0..n * rep.nshards {
        case += 1;
        if !rep.mine(case) {
            continue;
        }
        let mut rng = Rng::derive(seed, "c11-alias", case);
        let mut g = G::new(&mut rng);
        let body = encode(&gen_message(&cm, &mut g));
        let body = match rng.below(8) {
            0 | 1 => {
                let cut = rng.usize(body.len() + 1);
                body[..cut].to_vec()
            }
            2 | 3 => {
                // trailing bytes after the complete map (zero and non-zero, short and long)
                let mut b = body;
                let n = *rng.pick(&[1usize, 2, 8, 64, 1000]);
                let fill = match rng.below(3) {
                    0 => vec![0u8; n],
                    1 => vec![0xffu8; n],
                    _ => rng.bytes(n),
                };
                b.extend_from_slice(&fill);
                b
            }
            _ => body,
        };
        let mut a = vec![0x0a];
        a.extend_from_slice(&body);
        let mut b = vec![0x41];
        b.extend_from_slice(&body);
        if !rep.begin("alias-0x41") {
            continue;
        }
        rep.input(&b, true);
        let (da, db) = (decode(&a), decode(&b));
        if da != db {
            rep.violation("C11|alias|0x41-differs-from-0x0a", format!("{:?} vs {:?}", short(&da), short(&db)), &b);
        }
    }
}

fn short(d: &Decoded) -> String {
    match d {
        Decoded::Ok(n, v) => format!("Ok {} {}", n, v.diag().chars().take(80).collect::<String>()),
        Decoded::Err(e) => format!("Err {}", status_name(*e)),
        Decoded::Panic(p) => format!("PANIC {}", p),
    }
}
