//! C04 — decoding untrusted bytes never panics, aborts, overflows, violates an unsafe
//! precondition or hangs; same bytes, same result.
//!
//! Outcome classes observed per input: returned Ok / returned Err(status) / unwound (panic).
//! Aborts (UB-check traps, sanitizer reports, stack overflow) and CPU-limit kills end the shard
//! process; the driver isolates the in-flight case through the journal.

use crate::cbor::{encode, hex, V};
use crate::mutate;
use crate::report::{guard, panic_site, Rep};
use crate::rng::Rng;
use crate::schema::{self, gen_message, Nested, G};
use crate::util::{decode_checked, status_name, Decoded};
use ctap_types::ctap2::Request;

const PARAM_CMDS: [u8; 6] = [0x01, 0x02, 0x06, 0x0a, 0x0c, 0x41];

fn is_allowed_status(s: u8) -> bool {
    s == 0x01 || s == 0x12 || s == 0x14
}

/// Full per-case judgement (used for everything except the bulk enumeration).
pub fn judge(rep: &mut Rep, prop: &str, kind: &str, bytes: &[u8]) {
    let nontrivial = bytes.len() >= 2 && PARAM_CMDS.contains(&bytes[0]);
    rep.input(bytes, nontrivial);
    let t0 = std::time::Instant::now();
    let (d1, problems) = decode_checked(bytes);
    // "fails to terminate": a decode of <= 7609 bytes costs microseconds (the deepest nesting bomb
    // about a millisecond natively).  A case that took more than 5 s of wall time is decoded once
    // more with the process CPU time measured around it; more than 5 CPU-seconds is four orders of
    // magnitude beyond the normal cost and is reported (CPU time, so machine load cannot cause it).
    if !cfg!(miri) && t0.elapsed().as_secs_f64() > 5.0 {
        let c0 = crate::util::cpu_seconds();
        let _ = decode_checked(bytes);
        let spent = crate::util::cpu_seconds() - c0;
        if spent > 5.0 {
            rep.violation(
                &format!("{}|fails-to-terminate|{}", prop, kind.split(':').next().unwrap_or("")),
                format!("decoding this {}-byte input burns {:.0} CPU-seconds (normal cost: microseconds)", bytes.len(), spent),
                bytes,
            );
            rep.stop = true;
            return;
        }
    }
    match &d1 {
        Decoded::Panic(p) => {
            rep.violation(
                &format!("{}|panic|{}", prop, panic_site(p)),
                format!("decoder panicked on {} input ({} bytes): {}", kind, bytes.len(), p),
                bytes,
            );
            return;
        }
        Decoded::Err(s) => {
            rep.count(&format!("status/{}", status_name(*s)), 1);
            if !is_allowed_status(*s) {
                rep.violation(
                    &format!("{}|status-outside-set|{}", prop, status_name(*s)),
                    format!("rejection status {} is not one of 0x01/0x12/0x14", status_name(*s)),
                    bytes,
                );
            }
        }
        Decoded::Ok(name, _) => {
            rep.count(&format!("accepted/{}", name), 1);
            for p in &problems {
                if p.starts_with("OBS ") {
                    rep.count("obs/borrowed-field-outside-input", 1);
                } else {
                    rep.violation(
                        &format!("{}|invariant|{}", prop, p.split(' ').take(3).collect::<Vec<_>>().join(" ")),
                        format!("accepted request violates a structural invariant: {}", p),
                        bytes,
                    );
                }
            }
        }
    }
    // determinism: decode again from a separately allocated copy at a different alignment and
    // with different bytes after the end of the slice
    let mut copy = Vec::with_capacity(bytes.len() + 19);
    let pad = 1 + (bytes.len() % 7);
    copy.extend(std::iter::repeat(0xa5u8).take(pad));
    copy.extend_from_slice(bytes);
    copy.extend_from_slice(&[0xff, 0x5f, 0x9f, 0xbf, 0x7f, 0x1b, 0xff, 0xff, 0xff, 0xff, 0xff]);
    let (d2, _) = decode_checked(&copy[pad..pad + bytes.len()]);
    if d1 != d2 {
        rep.violation(
            &format!("{}|nondeterministic", prop),
            format!("same bytes decoded differently: first {:?}, second {:?}", d1, d2),
            bytes,
        );
    }
    rep.sample(|| format!("{} {} -> {}", kind, hex(&bytes[..bytes.len().min(96)]), short(&d1)));
}

fn short(d: &Decoded) -> String {
    match d {
        Decoded::Ok(n, v) => {
            let s = v.diag();
            format!("Ok {} {}", n, s.chars().take(120).collect::<String>())
        }
        Decoded::Err(s) => format!("Err {}", status_name(*s)),
        Decoded::Panic(p) => format!("PANIC {}", p),
    }
}

/// outcome code for the bulk loop: 0..=255 error status, 256 + k = Ok with variant class k
#[inline(never)]
fn outcome(buf: &[u8]) -> u32 {
    match Request::deserialize(buf) {
        Err(e) => e as u8 as u32,
        Ok(r) => {
            256 + match r {
                Request::MakeCredential(_) => 1,
                Request::GetAssertion(_) => 2,
                Request::GetNextAssertion => 8,
                Request::GetInfo => 4,
                Request::ClientPin(_) => 6,
                Request::Reset => 7,
                Request::CredentialManagement(_) => 10,
                Request::Selection => 11,
                Request::LargeBlobs(_) => 12,
                Request::Vendor(_) => 64,
                _ => 99,
            }
        }
    }
}

fn expected_ok_class(cmd: u8) -> Option<u32> {
    Some(match cmd {
        0x01 => 1,
        0x02 => 2,
        0x04 => 4,
        0x06 => 6,
        0x07 => 7,
        0x08 => 8,
        0x0a | 0x41 => 10,
        0x0b => 11,
        0x0c => 12,
        0x42..=0x7f => 64,
        _ => return None,
    })
}

/// Enumerate a block of inputs `prefix ‖ x` for all x of `tail` bytes; returns histogram.
fn bulk_block(rep: &mut Rep, prefix: &[u8], tail: usize, bucket: &str) {
    let total: u64 = 1u64 << (8 * tail);
    let plen = prefix.len();
    let mut hist = [0u64; 512];
    let mut odd: Vec<Vec<u8>> = Vec::new();
    let res = guard(|| {
        let mut buf = [0u8; 8];
        buf[..plen].copy_from_slice(prefix);
        for x in 0..total {
            for t in 0..tail {
                buf[plen + t] = (x >> (8 * (tail - 1 - t))) as u8;
            }
            let o = outcome(&buf[..plen + tail]);
            hist[(o as usize).min(511)] += 1;
            let ok = if o < 256 {
                is_allowed_status(o as u8)
            } else {
                plen + tail > 0 && expected_ok_class(buf[0]) == Some(o - 256)
            };
            if !ok || (o >= 256 && PARAM_CMDS.contains(&buf[0])) {
                if odd.len() < 4096 {
                    odd.push(buf[..plen + tail].to_vec());
                }
            }
        }
    });
    let nontrivial = if plen + tail >= 2 && !prefix.is_empty() && PARAM_CMDS.contains(&prefix[0]) {
        total
    } else if plen == 0 && tail >= 2 {
        // first byte varies: 6 of 256 first bytes are parameter-bearing
        total / 256 * 6
    } else {
        0
    };
    rep.bulk(bucket, total, nontrivial);
    for (o, c) in hist.iter().enumerate() {
        if *c > 0 {
            if o < 256 {
                rep.count(&format!("status/{}", status_name(o as u8)), *c);
            } else {
                rep.count(&format!("accepted/class{}", o - 256), *c);
            }
        }
    }
    if let Err(p) = res {
        // find the culprit one by one
        rep.count("bulk_block_panicked", 1);
        let mut buf = vec![0u8; plen + tail];
        buf[..plen].copy_from_slice(prefix);
        for x in 0..total {
            for t in 0..tail {
                buf[plen + t] = (x >> (8 * (tail - 1 - t))) as u8;
            }
            let b2 = buf.clone();
            if guard(|| outcome(&b2)).is_err() {
                rep.violation(
                    &format!("C04|panic|{}", panic_site(&p)),
                    format!("decoder panicked on enumerated input: {}", p),
                    &buf,
                );
                break;
            }
        }
    }
    // inputs with an unexpected outcome, and every accepted parameter-bearing input, get the
    // full judgement (status set, invariants, determinism)
    for b in odd {
        if rep.begin(&format!("{}/recheck", bucket)) {
            judge(rep, "C04", "enumerated", &b);
        }
    }
}

pub fn run(rep: &mut Rep) {
    let seed = rep.seed;
    // ---------------------------------------------------------------- (1) exhaustive short inputs
    // (the intermediate feature configurations run at --scale < 1 and leave the enumeration to the
    //  corner configurations: the short-input paths do not depend on the feature set)
    if !rep.light && rep.scale >= 1.0 {
        if rep.shard == 0 {
            bulk_block(rep, &[], 0, "exhaustive/len0");
            bulk_block(rep, &[], 1, "exhaustive/len1");
            bulk_block(rep, &[], 2, "exhaustive/len2");
        }
        for b0 in 0..256u64 {
            if rep.mine(b0) {
                bulk_block(rep, &[b0 as u8], 2, "exhaustive/len3");
            }
        }
        let mut k = 0u64;
        for cmd in PARAM_CMDS {
            for b1 in 0..256u64 {
                k += 1;
                if rep.mine(k) {
                    bulk_block(rep, &[cmd, b1 as u8], 2, "exhaustive/len4-param-cmds");
                }
            }
        }
    } else if rep.light {
        let mut rng = Rng::derive(seed, "c04-short", rep.shard);
        for _ in 0..40 {
            let n = rng.usize(5);
            let mut b = rng.bytes(n);
            if n > 0 && rng.bool() {
                b[0] = *rng.pick(&PARAM_CMDS);
            }
            if rep.begin("short-random") {
                judge(rep, "C04", "short-random", &b);
            }
        }
    }

    // ---------------------------------------------------------------- seeds: well-formed messages
    let mut cmds = schema::commands();
    let cm = cmds.iter().find(|c| c.0 == 0x0a).unwrap().2.clone();
    cmds.push((0x41, "CredentialManagement(0x41)", cm));
    let mut case = 0u64;
    let n_seeds = rep.n(96, 3000);
    let mut history: Vec<(Vec<u8>, Decoded)> = Vec::new();
    for (cmd, name, s) in &cmds {
        for i in 0..n_seeds * rep.nshards {
            case += 1;
            if !rep.mine(case) {
                continue;
            }
            if rep.stop {
                return;
            }
            let mut rng = Rng::derive(seed, "c04-seed", case);
            let mut g = G::new(&mut rng);
            g.nested = if i % 4 == 0 { Nested::All } else { Nested::Random };
            g.small = i % 2 == 0;
            if i % 8 == 0 {
                g.top_mask = Some(u64::MAX);
            }
            let v = gen_message(s, &mut g);
            let mut msg = vec![*cmd];
            msg.extend_from_slice(&encode(&v));
            // ---------------------------------------------------------- (2) byte-level mutation
            let stride = if msg.len() > 600 { 7 } else if msg.len() > 200 { 3 } else { 1 };
            let mut sel = if rep.light {
                mutate::Sel::every(((msg.len() as u64 * 33) / stride as u64 / 24).max(1), rng.u64() % 1000)
            } else {
                mutate::Sel::all()
            };
            let mut muts: Vec<(&'static str, Vec<u8>)> = Vec::new();
            mutate::byte_mutants(&msg, &mut rng, stride, &mut sel, &mut |k, b| muts.push((k, b.to_vec())));
            let mut g2 = G::new(&mut rng);
            g2.small = true;
            let other = gen_message(s, &mut g2);
            let mut omsg = vec![*cmd];
            omsg.extend_from_slice(&encode(&other));
            mutate::splices(&msg, &omsg, &mut rng, if rep.light { 2 } else { 48 }, &mut |k, b| muts.push((k, b.to_vec())));
            for (k, b) in muts.iter() {
                if rep.stop {
                    break;
                }
                if rep.begin(&format!("{}/byte-{}", name, k)) {
                    judge(rep, "C04", k, b);
                }
            }
            drop(muts);
            // ---------------------------------------------------------- (3) structure-level mutation
            if i % 3 == 0 || rep.light {
                let mut smuts: Vec<(String, Vec<u8>)> = Vec::new();
                let mut sel = if rep.light {
                    mutate::Sel::every(61, rng.u64() % 61)
                } else {
                    mutate::Sel::all()
                };
                mutate::struct_mutants(s, &v, &mut rng, &mut sel, &mut |k, member, body| {
                    let mut b = vec![*cmd];
                    b.extend_from_slice(&encode(body));
                    if b.len() <= schema::MAX_MSG {
                        smuts.push((format!("{}:{}", k, crate::util::stable_path(member)), b));
                    }
                });
                for (k, b) in smuts.iter() {
                    if rep.stop {
                        break;
                    }
                    let kind = k.split(':').next().unwrap_or("");
                    if rep.begin(&format!("{}/struct-{}", name, kind)) {
                        rep.count_max("max_input_len", b.len() as u64);
                        judge(rep, "C04", k, b);
                    }
                }
            }
            // ---------------------------------------------------------- (4) re-decode history
            if i % 5 == 0 {
                let (d, _) = decode_checked(&msg);
                history.push((msg.clone(), d));
                if history.len() > 64 {
                    history.remove(0);
                }
                let j = rng.usize(history.len());
                let (hm, hd) = history[j].clone();
                if rep.begin("history/re-decode") {
                    rep.input(&hm, true);
                    let (d2, _) = decode_checked(&hm);
                    if d2 != hd {
                        rep.violation(
                            "C04|nondeterministic|history",
                            format!("re-decoding an earlier input after {} other decodes gave a different result: {:?} vs {:?}", history.len(), hd, d2),
                            &hm,
                        );
                    }
                }
            }
        }
    }

    // ---------------------------------------------------------------- top-level bombs per command byte
    let mut rng = Rng::derive(seed, "c04-bombs", 0);
    let mut k = 0u64;
    let lbs = mutate::length_bombs();
    for cmd in 0..=255u8 {
        let interesting = PARAM_CMDS.contains(&cmd) || cmd % 16 == 0 || expected_ok_class(cmd).is_some();
        if !interesting {
            continue;
        }
        // (kind, a, b, c) specs, materialised only for the cases this shard executes
        let mut specs: Vec<(&'static str, usize, usize, usize)> = Vec::new();
        for i in 0..lbs.len() {
            specs.push(("length-bomb", i, 0, 0));
        }
        for kind in 0..4usize {
            let per = if kind == 1 { 2 } else { 1 };
            for depth in [1usize, 100, (schema::MAX_MSG - 2) / per] {
                for leaf in 0..3usize {
                    specs.push(("nest-bomb", kind, depth, leaf));
                }
            }
        }
        for fill in [0x00usize, 0xff, 0xa1, 0x81, 0x9f, 0xbf, 0x61, 0x41, 0xf6, 0x1b, 0x3b, 0x5b, 0x7b, 0x9b, 0xbb, 0xc0, 0xdb, 0xfb] {
            specs.push(("fill", fill, 0, 0));
        }
        for _ in 0..(if rep.thorough() { 64 } else { 8 }) {
            specs.push(("random", rng.usize(schema::MAX_MSG), rng.u64() as usize, 0));
        }
        for (kind, a, b_, c) in specs {
            k += 1;
            if !rep.mine(k) || rep.stop {
                continue;
            }
            let mut b = vec![cmd];
            match kind {
                "length-bomb" => b.extend_from_slice(&lbs[a]),
                "nest-bomb" => {
                    let leaf: &[u8] = [&[][..], &[0x00], &[0xa0]][c];
                    b.extend_from_slice(&mutate::nest(a as u8, b_, leaf));
                    b.truncate(schema::MAX_MSG);
                }
                "fill" => b.resize(schema::MAX_MSG, a as u8),
                _ => {
                    let mut r2 = Rng::new(b_ as u64);
                    b.extend_from_slice(&r2.bytes(a));
                }
            }
            if rep.begin(&format!("top-level/{}", kind)) {
                rep.count_max("max_input_len", b.len() as u64);
                judge(rep, "C04", kind, &b);
            }
        }
    }
    let _ = V::Null;
}
