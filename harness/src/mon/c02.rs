//! C02 — response encoding carries every member under its specified key, exactly.
//! C03 shares the corpus (see c03.rs): C02 compares with the model's expected bytes, C03 only asks
//! whether what was emitted is canonical.

use crate::cbor::{hex, parse_any, V};
use crate::report::{guard, panic_site, Rep};
use crate::resp::{expected_bytes, gen_response, Ctl, KINDS};
use crate::rng::Rng;
use crate::util::{stable_path, vdiff};
use ctap_types::ctap2;

pub fn serialize(resp: &ctap2::Response) -> Result<Vec<u8>, String> {
    guard(|| {
        let mut buf = ctap_types::heapless::Vec::<u8, 7609>::new();
        resp.serialize(&mut buf);
        buf.to_vec()
    })
}

/// The subsets of optional members to explore for a response with k optional members.
pub fn masks(k: usize, rng: &mut Rng, random_extra: usize) -> Vec<u64> {
    let mut out = Vec::new();
    if k <= 10 {
        for m in 0..(1u64 << k) {
            out.push(m);
        }
    } else {
        out.push(0);
        let full = (1u64 << k) - 1;
        out.push(full);
        for i in 0..k {
            out.push(1 << i);
            out.push(full & !(1 << i));
            for j in (i + 1)..k {
                out.push((1 << i) | (1 << j));
            }
        }
        for _ in 0..random_extra {
            out.push(rng.u64() & full);
        }
    }
    out
}

pub fn explain(exp: &[u8], got: &[u8]) -> (String, String) {
    if got.is_empty() {
        return ("empty-output".into(), "no bytes emitted".into());
    }
    if got[0] != 0x00 {
        return ("status".into(), format!("status byte 0x{:02x} instead of 0x00", got[0]));
    }
    let pe = if exp.len() > 1 { parse_any(&exp[1..]).ok().map(|x| x.0) } else { Some(V::M(vec![])) };
    let pg = if got.len() > 1 { parse_any(&got[1..]).ok() } else { Some((V::M(vec![]), 0)) };
    match (pe, pg) {
        (Some(e), Some((g, used))) => {
            if got.len() > 1 && used != got.len() - 1 {
                return ("trailing".into(), format!("{} trailing bytes after the map", got.len() - 1 - used));
            }
            match vdiff(&e, &g, "") {
                Some((p, w)) => (stable_path(&p), format!("at {}: {}", p, w)),
                None => {
                    if exp.len() == 1 && got.len() > 1 {
                        ("empty-map-not-collapsed".into(), "all members unset but a map was emitted".into())
                    } else {
                        ("encoding".into(), "same content, different encoding (order / head widths)".into())
                    }
                }
            }
        }
        _ => ("unparseable".into(), "emitted body is not well-formed CBOR".into()),
    }
}

pub fn judge(rep: &mut Rep, prop: &str, kind: &str, resp: &ctap2::Response, model: &Option<V>, tag: &str) {
    let exp = expected_bytes(model);
    rep.input(&exp, exp.len() > 1);
    match serialize(resp) {
        Ok(got) => {
            rep.sample(|| format!("{} {} -> {}", kind, tag, hex(&got[..got.len().min(120)])));
            if got != exp {
                let (what, detail) = explain(&exp, &got);
                rep.violation(
                    &format!("{}|{}|{}", prop, kind, what),
                    format!("{}; expected {} got {}; model {}", detail, hex(&exp[..exp.len().min(300)]), hex(&got[..got.len().min(300)]), model.as_ref().map(|m| m.diag()).unwrap_or_default()),
                    &exp,
                );
            }
        }
        Err(p) => rep.violation(&format!("{}|{}|panic|{}", prop, kind, panic_site(&p)), p, &exp),
    }
}

pub fn run(rep: &mut Rep) {
    let seed = rep.seed;
    let mut case = 0u64;
    for (kind, k) in KINDS {
        let mut mrng = Rng::derive(seed, "c02-masks", k as u64);
        let ms = masks(k, &mut mrng, if rep.thorough() { 4000 } else { 200 });
        let reps = if k <= 10 { rep.n(16, 1600) } else { rep.n(4, 400) }.max(1);
        for (mi, mask) in ms.iter().enumerate() {
            for r in 0..reps * rep.nshards {
                case += 1;
                if !rep.mine(case) {
                    continue;
                }
                let mut rng = Rng::derive(seed, "c02", case);
                let mut c = Ctl::new(&mut rng);
                c.any_alg = true;
                c.top_mask = Some(*mask);
                c.nested = match r % 3 {
                    0 => Some(true),
                    1 => Some(false),
                    _ => None,
                };
                c.small = r % 2 == 0;
                let (resp, model) = gen_response(kind, &mut c);
                if !rep.begin(&format!("{}/subsets", kind)) {
                    continue;
                }
                if mi == 0 && r == 0 {
                    rep.count(&format!("masks/{}", kind), ms.len() as u64);
                }
                judge(rep, "C02", kind, &resp, &model, &format!("mask={:#b}", mask));
            }
        }
    }
    // GetNextAssertion encodes exactly like GetAssertion
    let n = rep.n(2000, 200_000);
    for _ in 0..n * rep.nshards {
        case += 1;
        if !rep.mine(case) {
            continue;
        }
        let mut rng = Rng::derive(seed, "c02-gna", case);
        let mut c = Ctl::new(&mut rng);
                c.any_alg = true;
        let (r, _) = crate::resp::gen_get_assertion(&mut c);
        if !rep.begin("GetNextAssertion-equals-GetAssertion") {
            continue;
        }
        let a = serialize(&ctap2::Response::GetAssertion(r.clone()));
        let b = serialize(&ctap2::Response::GetNextAssertion(r));
        if let Ok(x) = &a {
            rep.input(x, true);
        }
        if a != b {
            rep.violation(
                "C02|GetNextAssertion|differs-from-GetAssertion",
                format!("{:?} vs {:?}", a.map(|x| hex(&x)), b.map(|x| hex(&x))),
                &[],
            );
        }
    }
}
