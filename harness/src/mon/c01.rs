//! C01 — request decoding is faithful to the specification's parameter tables.
//!
//! Oracle: project(deserialize(cmd ‖ encode(V))) == normalize(V) for V generated from the
//! specification tables.  Every subset of optional top-level parameters; every subset of the
//! optional members of each nested map (one nested map rotated through its subsets at a time);
//! boundary-lattice and random values.

use crate::cbor::{encode, V};
use crate::report::Rep;
use crate::rng::Rng;
use crate::schema::{self, gen_message, n_optional, normalize, Nested, G, S};
use crate::util::{decode, stable_path, status_name, vdiff, Decoded};

/// Judge one well-formed message.  Shared with other monitors that need "decodes faithfully".
pub fn judge(rep: &mut Rep, prop: &str, cmd: u8, cmd_name: &str, s: &S, v: &V, tag: &str) -> bool {
    let mut bytes = vec![cmd];
    bytes.extend_from_slice(&encode(v));
    let nontrivial = v.as_map().map(|m| m.len() >= 1).unwrap_or(false);
    rep.input(&bytes, nontrivial);
    let expected = match normalize(s, v) {
        Some(e) => e,
        None => {
            rep.count("harness_normalize_failed", 1);
            return true;
        }
    };
    let want_variant = crate::project::variant_for_cmd(cmd);
    rep.sample(|| format!("{} {} -> expect {}", tag, crate::cbor::hex(&bytes[..bytes.len().min(160)]), expected.diag()));
    match decode(&bytes) {
        Decoded::Ok(name, got) => {
            if name != want_variant {
                rep.violation(
                    &format!("{}|{}|wrong-variant|{}", prop, cmd_name, name),
                    format!("command 0x{:02x} decoded as {}", cmd, name),
                    &bytes,
                );
                return false;
            }
            if let Some((path, what)) = vdiff(&expected, &got, "") {
                rep.violation(
                    &format!("{}|{}|value|{}", prop, cmd_name, stable_path(&path)),
                    format!("at {}: {}; sent {}", path, what, v.diag()),
                    &bytes,
                );
                return false;
            }
            true
        }
        Decoded::Err(e) => {
            rep.violation(
                &format!("{}|{}|rejected|{}", prop, cmd_name, status_name(e)),
                format!("well-formed message rejected with {}; sent {}", status_name(e), v.diag()),
                &bytes,
            );
            false
        }
        Decoded::Panic(p) => {
            rep.violation(
                &format!("{}|{}|panic|{}", prop, cmd_name, crate::report::panic_site(&p)),
                format!("decoder panicked: {}; sent {}", p, v.diag()),
                &bytes,
            );
            false
        }
    }
}

/// nested map kinds that have optional members, per command
fn nested_kinds(cmd: u8) -> Vec<(&'static str, usize)> {
    let user = ("user", 3);
    let rp = ("rp", 2);
    let opts = ("options", 3);
    match cmd {
        0x01 => vec![rp, user, ("mc_extensions", if schema::tpp() { 4 } else { 3 }), opts],
        0x02 => vec![
            ("ga_extensions", if schema::tpp() { 3 } else { 2 }),
            ("hmac_secret_input", 1),
            opts,
        ],
        0x0a | 0x41 => vec![("cm_params", 3), user],
        _ => vec![],
    }
}

pub fn run(rep: &mut Rep) {
    let mut cmds = schema::commands();
    let cm = cmds.iter().find(|c| c.0 == 0x0a).unwrap().2.clone();
    cmds.push((0x41, "CredentialManagement(0x41)", cm));
    let seed = rep.seed;
    let mut case: u64 = 0;
    for (cmd, name, s) in &cmds {
        let k = n_optional(s);
        let reps = rep.n(24, 1200).max(1);
        // (a) every subset of the optional top-level parameters
        for mask in 0..(1u64 << k) {
            for r in 0..reps * rep.nshards {
                case += 1;
                if !rep.mine(case) {
                    continue;
                }
                let mut rng = Rng::derive(seed, "c01a", case);
                let mut g = G::new(&mut rng);
                g.top_mask = Some(mask);
                g.nested = match r % 3 {
                    0 => Nested::All,
                    1 => Nested::OnlyRequired,
                    _ => Nested::Random,
                };
                let v = gen_message(s, &mut g);
                if !rep.begin(&format!("{}/top-subsets", name)) {
                    continue;
                }
                rep.count(&format!("masks_seen/{}", name), 0);
                judge(rep, "C01", *cmd, name, s, &v, &format!("mask={:#b}", mask));
            }
            rep.count(&format!("top_masks_enumerated/{}", name), if rep.shard == 0 { 1 } else { 0 });
        }
        // (b) every subset of the optional members of each nested map, everything else present
        for (kind, nk) in nested_kinds(*cmd) {
            let reps2 = rep.n(8, 400).max(1);
            for mask in 0..(1u64 << nk) {
                for r in 0..reps2 * rep.nshards {
                    case += 1;
                    if !rep.mine(case) {
                        continue;
                    }
                    let mut rng = Rng::derive(seed, "c01b", case);
                    let mut g = G::new(&mut rng);
                    g.top_mask = Some(u64::MAX);
                    g.nested = if r % 2 == 0 { Nested::All } else { Nested::Random };
                    g.focus = Some((kind, mask));
                    g.small = r % 4 >= 2;
                    let v = gen_message(s, &mut g);
                    if !rep.begin(&format!("{}/nested-subsets/{}", name, kind)) {
                        continue;
                    }
                    judge(rep, "C01", *cmd, name, s, &v, &format!("{} mask={:#b}", kind, mask));
                }
            }
        }
        // (c) fully random presence
        let n = rep.n(2_000, 400_000);
        for _ in 0..n * rep.nshards {
            case += 1;
            if !rep.mine(case) {
                continue;
            }
            let mut rng = Rng::derive(seed, "c01c", case);
            let mut g = G::new(&mut rng);
            g.nested = Nested::Random;
            let v = gen_message(s, &mut g);
            if !rep.begin(&format!("{}/random", name)) {
                continue;
            }
            judge(rep, "C01", *cmd, name, s, &v, "random");
        }
    }
    // (c2) well-formed messages larger than the 7609-byte transport maximum: the unbounded members
    //      (hashes, pinUvAuthParam, set, rpId) have no total limit in the parameter tables
    for (cmd, name, s) in &cmds {
        for &big in &[7700usize, 9000, 20000] {
            case += 1;
            if !rep.mine(case) {
                continue;
            }
            let mut rng = Rng::derive(seed, "c01-big", case);
            let mut g = G::new(&mut rng);
            g.small = true;
            g.top_mask = Some(u64::MAX);
            let mut v = gen_message(s, &mut g);
            let target = match *cmd {
                0x01 => "pinUvAuthParam",
                0x02 => "clientDataHash",
                0x06 => "newPinEnc",
                0x0a | 0x41 => "pinUvAuthParam",
                _ => "set",
            };
            if !crate::schema::set_by_name(s, &mut v, target, V::B(rng.bytes(big))) {
                continue;
            }
            if !rep.begin(&format!("{}/oversize-well-formed", name)) {
                continue;
            }
            judge(rep, "C01", *cmd, name, s, &v, &format!("{} = {} bytes", target, big));
        }
    }
    // (d) 0x41 decodes exactly like 0x0A on a shared corpus
    let cm = &cmds.iter().find(|c| c.0 == 0x0a).unwrap().2;
    let n = rep.n(1_000, 100_000);
    for _ in 0..n * rep.nshards {
        case += 1;
        if !rep.mine(case) {
            continue;
        }
        let mut rng = Rng::derive(seed, "c01d", case);
        let mut g = G::new(&mut rng);
        let v = gen_message(cm, &mut g);
        if !rep.begin("alias-0x41-vs-0x0a") {
            continue;
        }
        let body = encode(&v);
        let mut a = vec![0x0a];
        a.extend_from_slice(&body);
        let mut b = vec![0x41];
        b.extend_from_slice(&body);
        rep.input(&b, true);
        let da = decode(&a);
        let db = decode(&b);
        if da != db {
            rep.violation(
                "C01|alias|0x41-differs-from-0x0a",
                format!("0x0a -> {:?}; 0x41 -> {:?}", da, db),
                &b,
            );
        }
    }
}
