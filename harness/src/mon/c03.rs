//! C03 — everything the authenticator emits is CTAP2 canonical CBOR.
//!
//! Oracle: `cbor::parse_canonical` (rule + offset), independent of C02's expected values.
//! Workload: the C02 response corpus; for every nested map type every pair of members, every
//! singleton and the full set; integer magnitudes across the head thresholds; the extension map
//! tail of authenticator data for every subset of extension outputs; every constructible
//! serialisable type on its own.

use crate::cbor::{hex, parse_any, parse_canonical, V};
use crate::report::{guard, panic_site, Rep};
use crate::resp::{self, gen_response, Ctl, KINDS};
use crate::rng::Rng;
use ctap_types::ctap2::{self, get_assertion, make_credential};
use ctap_types::serde::cbor_serialize;

/// Which adjacent pair of keys does a key-order / duplicate error sit at?  Returns "prev>cur"
/// (diagnostic notation) for the key that starts at `offset`; used for stable signatures.
fn locate(bytes: &[u8], offset: usize) -> String {
    fn rec(v: &V, base: usize, offset: usize) -> Option<String> {
        match v {
            V::M(m) => {
                let mut pos = base + crate::cbor::head_len(m.len() as u64);
                let mut prev: Option<&V> = None;
                for (k, x) in m {
                    let kl = crate::cbor::encode(k).len();
                    let xl = crate::cbor::encode(x).len();
                    if pos == offset {
                        return Some(format!("{}>{}", prev.map(|p| p.diag()).unwrap_or_default(), k.diag()));
                    }
                    if offset >= pos + kl && offset < pos + kl + xl {
                        return rec(x, pos + kl, offset);
                    }
                    pos += kl + xl;
                    prev = Some(k);
                }
                None
            }
            V::A(a) => {
                let mut pos = base + crate::cbor::head_len(a.len() as u64);
                for x in a {
                    let xl = crate::cbor::encode(x).len();
                    if offset >= pos && offset < pos + xl {
                        return rec(x, pos, offset);
                    }
                    pos += xl;
                }
                None
            }
            _ => None,
        }
    }
    // extents are computed by re-encoding, valid when every head is minimal; good enough for a
    // signature (a non-minimal head is reported by its own rule before any order rule)
    match parse_any(bytes) {
        Ok((v, _)) => rec(&v, 0, offset).unwrap_or_else(|| "?".into()),
        Err(_) => "?".into(),
    }
}

pub fn check(rep: &mut Rep, what: &str, body: &[u8]) {
    rep.input(body, body.len() > 1);
    if let Err(e) = parse_canonical(body) {
        let loc = if e.rule == "key-order" || e.rule == "duplicate-key" { locate(body, e.offset) } else { String::new() };
        rep.violation(
            &format!("C03|{}|{}|{}", what, e.rule, loc),
            format!("emitted bytes are not canonical CBOR: {} at offset {} in {}; bytes {}", e.rule, e.offset, loc, hex(&body[..body.len().min(400)])),
            body,
        );
    }
}

pub fn check_response(rep: &mut Rep, kind: &str, resp: &ctap2::Response, tag: &str) {
    match crate::mon::c02::serialize(resp) {
        Ok(got) => {
            rep.sample(|| format!("{} {} -> {}", kind, tag, hex(&got[..got.len().min(120)])));
            if got.is_empty() {
                rep.violation(&format!("C03|{}|empty-output", kind), "no bytes".into(), &[]);
            } else if got.len() > 1 {
                check(rep, kind, &got[1..]);
            }
        }
        Err(p) => rep.violation(&format!("C03|{}|panic|{}", kind, panic_site(&p)), p, &[]),
    }
}

pub fn standalone<T: serde_like::Ser>(rep: &mut Rep, what: &str, v: &T) {
    match guard(|| v.to_bytes()) {
        Ok(Ok(b)) => check(rep, what, &b),
        Ok(Err(e)) => rep.violation(&format!("C03|{}|serialize-error", what), e, &[]),
        Err(p) => rep.violation(&format!("C03|{}|panic|{}", what, panic_site(&p)), p, &[]),
    }
}

/// Minimal indirection so that the harness does not need the serde crate itself.
pub mod serde_like {
    pub trait Ser {
        fn to_bytes(&self) -> Result<Vec<u8>, String>;
    }
}

macro_rules! impl_ser {
    ($($t:ty),* $(,)?) => {$(
        impl serde_like::Ser for $t {
            fn to_bytes(&self) -> Result<Vec<u8>, String> {
                let mut buf = vec![0u8; 8192];
                cbor_serialize(self, &mut buf).map(|s| s.to_vec()).map_err(|e| format!("{:?}", e))
            }
        }
    )*};
}

impl_ser!(
    ctap2::AuthenticatorOptions,
    ctap2::get_info::CtapOptions,
    ctap2::get_info::Response,
    ctap2::client_pin::Response,
    ctap2::large_blobs::Response,
    ctap2::credential_management::Response,
    ctap2::make_credential::Response,
    ctap2::get_assertion::Response,
    make_credential::Extensions,
    get_assertion::ExtensionsInput,
    get_assertion::ExtensionsOutput,
    ctap_types::webauthn::PublicKeyCredentialRpEntity,
    ctap_types::webauthn::PublicKeyCredentialUserEntity,
    ctap_types::webauthn::PublicKeyCredentialDescriptor,
    ctap_types::webauthn::PublicKeyCredentialParameters,
    ctap_types::webauthn::FilteredPublicKeyCredentialParameters,
    ctap2::AttestationStatement,
    ctap2::PackedAttestationStatement,
    cosey::PublicKey,
    cosey::EcdhEsHkdf256PublicKey,
    cosey::P256PublicKey,
    cosey::Ed25519PublicKey,
);
#[cfg(feature = "gif")]
impl_ser!(ctap2::get_info::Certifications);

fn pair_masks(k: usize) -> Vec<u64> {
    let mut out = vec![0u64];
    if k == 0 {
        return out;
    }
    let full = if k >= 64 { u64::MAX } else { (1u64 << k) - 1 };
    out.push(full);
    for i in 0..k {
        out.push(1 << i);
        for j in (i + 1)..k {
            out.push((1 << i) | (1 << j));
        }
    }
    out
}

pub fn mc_extensions(rng: &mut Rng, mask: u64) -> make_credential::Extensions {
    let mut e = make_credential::Extensions::default();
    if mask & 1 != 0 {
        e.cred_protect = Some(crate::schema::gen_uint(rng, 255) as u8);
    }
    if mask & 2 != 0 {
        e.hmac_secret = Some(rng.bool());
    }
    if mask & 4 != 0 {
        e.large_blob_key = Some(rng.bool());
    }
    #[cfg(feature = "tpp")]
    if mask & 8 != 0 {
        e.third_party_payment = Some(rng.bool());
    }
    e
}
pub const N_MC_EXT: usize = if cfg!(feature = "tpp") { 4 } else { 3 };

pub fn ga_extensions_output(rng: &mut Rng, mask: u64) -> get_assertion::ExtensionsOutput {
    let mut e = get_assertion::ExtensionsOutput::default();
    if mask & 1 != 0 {
        let n = *rng.pick(&[0usize, 1, 23, 24, 32, 64, 80]);
        let mut b = rng.bytes(n);
        e.hmac_secret = Some(resp::hb(&mut b));
    }
    #[cfg(feature = "tpp")]
    if mask & 2 != 0 {
        e.third_party_payment = Some(rng.bool());
    }
    e
}
pub const N_GA_EXT: usize = if cfg!(feature = "tpp") { 2 } else { 1 };

const SPEC_KEYS: [&str; 40] = [
    "plat", "rk", "clientPin", "up", "uv", "pinUvAuthToken", "noMcGaPermissionsWithClientPin", "largeBlobs", "ep", "bioEnroll",
    "userVerificationMgmtPreview", "uvBioEnroll", "authnrCfg", "uvAcfg", "credMgmt", "perCredMgmtRO", "credentialMgmtPreview",
    "setMinPINLength", "makeCredUvNotRqd", "alwaysUv", "credProtect", "hmac-secret", "hmac-secret-mc", "largeBlobKey", "credBlob",
    "minPinLength", "thirdPartyPayment", "payment", "FIDO", "CC-EAL", "FIPS-CMVP-2", "FIPS-CMVP-3", "FIPS-CMVP-2-PHY", "FIPS-CMVP-3-PHY",
    "id", "name", "displayName", "icon", "type", "alg",
];

fn candidate_keys(rep: &mut Rep) {
    use ctap_types::ctap2::{get_assertion, get_info, make_credential, AuthenticatorOptions};
    use ctap_types::serde::cbor_deserialize;
    if rep.shard != 0 {
        return;
    }
    let mut keys: Vec<String> = SPEC_KEYS.iter().map(|s| s.to_string()).collect();
    for t in &crate::schema::literals().texts {
        if !t.is_empty() && t.len() <= 40 && t.chars().all(|c| c.is_ascii_alphanumeric() || c == '-' || c == '_') && !keys.contains(t) {
            keys.push(t.clone());
        }
    }
    macro_rules! offer {
        ($ty:ty, $name:expr, $val:expr, $required:expr) => {{
            // which candidates does the type know?  (a key is "known" if its presence changes the value)
            let base_map: Vec<(V, V)> = $required.iter().map(|k: &&str| (V::text(k), V::Bool(true))).collect();
            let Ok(base) = cbor_deserialize::<$ty>(&crate::cbor::encode(&crate::cbor::canonical(V::M(base_map.clone())))) else { return };
            let mut known: Vec<String> = Vec::new();
            for k in &keys {
                if $required.contains(&k.as_str()) {
                    known.push(k.clone());
                    continue;
                }
                let mut m = base_map.clone();
                m.push((V::text(k), $val));
                let b = crate::cbor::encode(&crate::cbor::canonical(V::M(m)));
                if let Ok(v) = cbor_deserialize::<$ty>(&b) {
                    if v != base {
                        known.push(k.clone());
                    }
                }
            }
            rep.count(&format!("candidate_keys_known/{}", $name), known.len() as u64);
            // every pair of known members (and all together) decoded from canonical bytes and re-encoded
            let mut sets: Vec<Vec<String>> = vec![known.clone()];
            for i in 0..known.len() {
                for j in (i + 1)..known.len() {
                    sets.push(vec![known[i].clone(), known[j].clone()]);
                }
            }
            for set in sets {
                if !rep.begin(&format!("candidate-keys/{}", $name)) {
                    continue;
                }
                let mut m = base_map.clone();
                for k in &set {
                    if !m.iter().any(|(kk, _)| *kk == V::text(k)) {
                        m.push((V::text(k), $val));
                    }
                }
                let b = crate::cbor::encode(&crate::cbor::canonical(V::M(m)));
                if let Ok(v) = cbor_deserialize::<$ty>(&b) {
                    standalone(rep, &format!("{}(decoded candidates)", $name), &v);
                }
            }
        }};
    }
    let none: [&str; 0] = [];
    offer!(get_info::CtapOptions, "CtapOptions", V::Bool(true), ["rk", "up"]);
    offer!(AuthenticatorOptions, "AuthenticatorOptions", V::Bool(true), none);
    offer!(make_credential::Extensions, "make_credential::Extensions", V::Bool(true), none);
    offer!(get_assertion::ExtensionsInput, "get_assertion::ExtensionsInput", V::Bool(true), none);
    offer!(get_assertion::ExtensionsOutput, "get_assertion::ExtensionsOutput", V::Bool(true), none);
    #[cfg(feature = "gif")]
    offer!(get_info::Certifications, "Certifications", V::U(2), none);
}

pub fn run(rep: &mut Rep) {
    let seed = rep.seed;
    let mut case = 0u64;
    // (a) the response corpus: all small subsets, singletons/pairs/full for the large ones
    for (kind, k) in KINDS {
        let mut mrng = Rng::derive(seed, "c03-masks", k as u64);
        let ms = crate::mon::c02::masks(k, &mut mrng, if rep.thorough() { 2000 } else { 100 });
        let reps = if k <= 10 { rep.n(8, 800) } else { rep.n(4, 400) }.max(1);
        for mask in ms.iter() {
            for r in 0..reps * rep.nshards {
                case += 1;
                if !rep.mine(case) {
                    continue;
                }
                let mut rng = Rng::derive(seed, "c03a", case);
                let mut c = Ctl::new(&mut rng);
                c.any_alg = true;
                c.top_mask = Some(*mask);
                c.nested = if r % 2 == 0 { Some(true) } else { None };
                c.small = r % 2 == 1;
                let (resp, _) = gen_response(kind, &mut c);
                if !rep.begin(&format!("{}/subsets", kind)) {
                    continue;
                }
                check_response(rep, kind, &resp, &format!("mask={:#b}", mask));
            }
        }
    }
    // (b) nested maps: every pair, singleton, full set, inside their host responses
    let nested: Vec<(&'static str, usize, &'static str)> = vec![
        ("CtapOptions", resp::N_CTAP_OPTIONS, "GetInfo"),
        ("Certifications", if cfg!(feature = "gif") { 6 } else { 0 }, "GetInfo"),
        ("user", 3, "GetAssertion"),
        ("user", 3, "CredentialManagement"),
        ("rp", 1, "CredentialManagement"),
        ("packed", 1, "MakeCredential"),
        ("packed", 1, "GetAssertion"),
    ];
    for (nk, k, host) in nested {
        let reps = rep.n(8, 400).max(1);
        for mask in pair_masks(k) {
            for _ in 0..reps * rep.nshards {
                case += 1;
                if !rep.mine(case) {
                    continue;
                }
                let mut rng = Rng::derive(seed, "c03b", case);
                let mut c = Ctl::new(&mut rng);
                c.any_alg = true;
                c.top_mask = Some(u64::MAX);
                c.focus = Some((nk, mask));
                c.small = true;
                let (resp, _) = gen_response(host, &mut c);
                if !rep.begin(&format!("nested-pairs/{}/{}", host, nk)) {
                    continue;
                }
                check_response(rep, host, &resp, &format!("{} mask={:#b}", nk, mask));
            }
        }
    }
    // (c) extension map tail of authenticator data, every subset of extension outputs
    let reps = rep.n(32, 3200).max(1);
    for mask in 0..(1u64 << N_MC_EXT) {
        for _ in 0..reps * rep.nshards {
            case += 1;
            if !rep.mine(case) {
                continue;
            }
            let mut rng = Rng::derive(seed, "c03c", case);
            let ext = mc_extensions(&mut rng, mask);
            let hash = [0x5au8; 32];
            let ad = make_credential::AuthenticatorData {
                rp_id_hash: &hash,
                flags: ctap2::AuthenticatorDataFlags::EXTENSION_DATA,
                sign_count: rng.u64() as u32,
                attested_credential_data: None,
                extensions: Some(ext.clone()),
            };
            if !rep.begin("authdata-extension-tail/make_credential") {
                continue;
            }
            match guard(|| ad.serialize()) {
                Ok(Ok(b)) if b.len() >= 37 => check(rep, "authData.extensions(mc)", &b[37..]),
                Ok(other) => rep.violation("C03|authData(mc)|serialize-failed", format!("{:?}", other.map(|b| b.len())), &[]),
                Err(p) => rep.violation(&format!("C03|authData(mc)|panic|{}", panic_site(&p)), p, &[]),
            }
            standalone(rep, "make_credential::Extensions", &ext);
        }
    }
    // (c2) the same tail when the authenticator data is nearly full: whatever is returned with Ok
    //      must still end in one complete canonical map
    for room in 0..48usize {
        for mask in 1..(1u64 << N_MC_EXT) {
            case += 1;
            if !rep.mine(case) {
                continue;
            }
            let mut rng = Rng::derive(seed, "c03c2", case);
            let ext = mc_extensions(&mut rng, mask);
            let hash = [0x3cu8; 32];
            // 37 header + 16 aaguid + 2 length + id + 77 key = 676 - room
            let idl = 676 - room - 37 - 16 - 2 - 77;
            let (aaguid, id, key) = (rng.bytes(16), rng.bytes(idl), rng.bytes(77));
            let ad = make_credential::AuthenticatorData {
                rp_id_hash: &hash,
                flags: ctap2::AuthenticatorDataFlags::EXTENSION_DATA | ctap2::AuthenticatorDataFlags::ATTESTED_CREDENTIAL_DATA,
                sign_count: rng.u64() as u32,
                attested_credential_data: Some(make_credential::AttestedCredentialData {
                    aaguid: &aaguid,
                    credential_id: &id,
                    credential_public_key: &key,
                }),
                extensions: Some(ext),
            };
            if !rep.begin("authdata-extension-tail/nearly-full") {
                continue;
            }
            let prefix = 676 - room;
            match guard(|| ad.serialize()) {
                Ok(Ok(b)) if b.len() > prefix => check(rep, "authData.extensions(mc,nearly-full)", &b[prefix..]),
                Ok(Ok(b)) => rep.violation(
                    "C03|authData(mc,nearly-full)|extension-map-missing",
                    format!("Ok with {} bytes but attested data alone is {} bytes and extensions were supplied", b.len(), prefix),
                    &[],
                ),
                Ok(Err(_)) => rep.count("authdata_nearly_full_refused", 1),
                Err(p) => rep.violation(&format!("C03|authData(mc)|panic|{}", panic_site(&p)), p, &[]),
            }
        }
    }
    for mask in 0..(1u64 << N_GA_EXT) {
        for _ in 0..reps * rep.nshards {
            case += 1;
            if !rep.mine(case) {
                continue;
            }
            let mut rng = Rng::derive(seed, "c03d", case);
            let ext = ga_extensions_output(&mut rng, mask);
            let hash = [0xa5u8; 32];
            let ad = get_assertion::AuthenticatorData {
                rp_id_hash: &hash,
                flags: ctap2::AuthenticatorDataFlags::EXTENSION_DATA,
                sign_count: rng.u64() as u32,
                attested_credential_data: None,
                extensions: Some(ext.clone()),
            };
            if !rep.begin("authdata-extension-tail/get_assertion") {
                continue;
            }
            match guard(|| ad.serialize()) {
                Ok(Ok(b)) if b.len() >= 37 => check(rep, "authData.extensions(ga)", &b[37..]),
                Ok(other) => rep.violation("C03|authData(ga)|serialize-failed", format!("{:?}", other.map(|b| b.len())), &[]),
                Err(p) => rep.violation(&format!("C03|authData(ga)|panic|{}", panic_site(&p)), p, &[]),
            }
            standalone(rep, "get_assertion::ExtensionsOutput", &ext);
        }
    }
    // (c3) members this harness does not know about: the text-keyed map types that can be decoded
    //      are offered every candidate key (names of the CTAP 2.1/2.2 option / extension /
    //      certification tables and every identifier-like string literal of the source tree) with a
    //      plausible value; whatever the crate accepts is re-encoded and must be canonical
    candidate_keys(rep);
    // (d) constructible serialisable types on their own, values across head thresholds
    let n = rep.n(1500, 1_500_000);
    for _ in 0..n * rep.nshards {
        case += 1;
        if !rep.mine(case) {
            continue;
        }
        let mut rng = Rng::derive(seed, "c03e", case);
        let which = rng.below(9);
        let mut c = Ctl::new(&mut rng);
                c.any_alg = true;
        c.small = false;
        if !rep.begin("standalone-types") {
            continue;
        }
        match which {
            0 => standalone(rep, "CtapOptions", &resp::gen_ctap_options(&mut c).0),
            1 => standalone(rep, "PublicKeyCredentialUserEntity", &resp::gen_user(&mut c).0),
            2 => standalone(rep, "PublicKeyCredentialRpEntity", &resp::gen_rp(&mut c).0),
            3 => standalone(rep, "PublicKeyCredentialDescriptor", &resp::gen_descriptor(&mut c).0),
            4 => {
                let k = c.rng.below(4);
                standalone(rep, "cosey::PublicKey", &resp::gen_cose(c.rng, k).0)
            }
            5 => standalone(rep, "AttestationStatement", &resp::gen_att_stmt(&mut c).0),
            6 => {
                let alg = (c.rng.u64() as i32) >> c.rng.below(31);
                let p = ctap_types::webauthn::PublicKeyCredentialParameters::public_key_with_alg(alg);
                standalone(rep, "PublicKeyCredentialParameters", &p)
            }
            7 => {
                let mut ext = get_assertion::ExtensionsInput::default();
                ext.large_blob_key = Some(c.rng.bool());
                standalone(rep, "get_assertion::ExtensionsInput", &ext)
            }
            _ => {
                #[cfg(feature = "gif")]
                if let Some((x, _)) = resp::gen_certifications(&mut c) {
                    standalone(rep, "Certifications", &x);
                }
            }
        }
    }
}
