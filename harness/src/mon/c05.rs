//! C05 — rejected requests report exactly the status their fault calls for.
//!
//! Fault enumeration: every well-formed seed message x every single fault; the expected status
//! comes from the fault class table of the property statement:
//!   unassigned/unsupported command            -> InvalidCommand   0x01
//!   required parameter / nested member removed -> MissingParameter 0x14
//!   truncation, duplicate key, non-minimal or indefinite encoding, wrong CBOR type,
//!   value past a member's capacity or integer range (non-lossy members) -> InvalidCbor 0x12

use crate::cbor::{canonicalize, encode, V};
use crate::mutate::{encode_with_head, type_samples};
use crate::report::{panic_site, Rep};
use crate::rng::Rng;
use crate::schema::{self, accepted_classes, as_map_schema, at, at_mut, gen_message, major_class, nodes, Nested, Step, G, S, UNB};
use crate::util::{decode, stable_path, status_name, Decoded};

pub struct Fault {
    pub kind: &'static str,
    pub member: String,
    pub expect: u8,
    pub bytes: Vec<u8>,
}

fn msg(cmd: u8, body: &V) -> Vec<u8> {
    let mut b = vec![cmd];
    b.extend_from_slice(&encode(body));
    b
}

fn member_of<'a>(ms: &'a schema::MapS, k: &V) -> Option<&'a schema::Member> {
    ms.members
        .iter()
        .find(|m| m.key == *k || m.aliases.iter().any(|a| *k == V::text(a)))
}

/// Enumerate every single fault of a well-formed body.
pub fn faults(cmd: u8, s: &S, v: &V, rng: &mut Rng, out: &mut Vec<Fault>) {
    let whole = msg(cmd, v);
    // truncation at every offset
    for cut in 0..whole.len() {
        out.push(Fault {
            kind: "truncate",
            member: String::new(),
            expect: 0x12,
            bytes: whole[..cut].to_vec(),
        });
    }
    let ns = nodes(s, v);
    for node in &ns {
        let here = at(v, &node.path).cloned().unwrap_or(V::Null);
        // ---- map-level faults: removal of required members, duplicated keys
        if let (Some(ms), V::M(entries)) = (as_map_schema(node.s), &here) {
            for (i, (k, x)) in entries.iter().enumerate() {
                let Some(mem) = member_of(ms, k) else { continue };
                let mname = if node.name.is_empty() {
                    mem.name.to_string()
                } else {
                    format!("{}.{}", node.name, mem.name)
                };
                if mem.required {
                    let mut m = v.clone();
                    if let Some(V::M(e)) = at_mut(&mut m, &node.path) {
                        e.remove(i);
                    }
                    out.push(Fault {
                        kind: "remove-required",
                        member: mname.clone(),
                        expect: 0x14,
                        bytes: msg(cmd, &m),
                    });
                }
                for place in 0..2 {
                    let mut m = v.clone();
                    if let Some(V::M(e)) = at_mut(&mut m, &node.path) {
                        let dup = (k.clone(), x.clone());
                        if place == 0 {
                            e.insert(i + 1, dup);
                        } else {
                            e.push(dup);
                        }
                    }
                    out.push(Fault {
                        kind: "duplicate-key",
                        member: mname.clone(),
                        expect: 0x12,
                        bytes: msg(cmd, &m),
                    });
                }
                if !mem.aliases.is_empty() {
                    // the other spelling of the same member
                    let other = if *k == mem.key {
                        V::text(mem.aliases[0])
                    } else {
                        mem.key.clone()
                    };
                    let mut m = v.clone();
                    if let Some(V::M(e)) = at_mut(&mut m, &node.path) {
                        e.push((other, x.clone()));
                        let mut mm = V::M(e.clone());
                        canonicalize(&mut mm);
                        if let V::M(sorted) = mm {
                            *e = sorted;
                        }
                    }
                    out.push(Fault {
                        kind: "duplicate-key-alias",
                        member: mname.clone(),
                        expect: 0x12,
                        bytes: msg(cmd, &m),
                    });
                }
                // key head non-minimal
                let mut kp = node.path.clone();
                kp.push(Step::MapKey(i));
                for w in [1u8, 2, 4, 8] {
                    if head_is_wider(k, w) {
                        if let Some(b) = encode_with_head(v, &kp, w) {
                            let mut bytes = vec![cmd];
                            bytes.extend_from_slice(&b);
                            out.push(Fault {
                                kind: "non-minimal-key",
                                member: mname.clone(),
                                expect: 0x12,
                                bytes,
                            });
                        }
                    }
                }
            }
        }
        // ---- head faults on the node itself (root map included)
        for w in [1u8, 2, 4, 8] {
            if head_is_wider(&here, w) {
                if let Some(b) = encode_with_head(v, &node.path, w) {
                    let mut bytes = vec![cmd];
                    bytes.extend_from_slice(&b);
                    out.push(Fault {
                        kind: "non-minimal-head",
                        member: node.name.clone(),
                        expect: 0x12,
                        bytes,
                    });
                }
            }
        }
        for ai in [28u8, 29, 30, 31] {
            if ai == 31 && !matches!(here, V::U(_) | V::N(_)) {
                continue; // 31 on strings/containers is the indefinite-length fault below
            }
            if !matches!(here, V::U(_) | V::N(_) | V::B(_) | V::T(_) | V::A(_) | V::M(_)) {
                continue;
            }
            if let Some(b) = encode_with_head(v, &node.path, ai) {
                let mut bytes = vec![cmd];
                bytes.extend_from_slice(&b);
                out.push(Fault {
                    kind: "reserved-additional-info",
                    member: node.name.clone(),
                    expect: 0x12,
                    bytes,
                });
            }
        }
        if matches!(here, V::B(_) | V::T(_) | V::A(_) | V::M(_)) {
            if let Some(b) = encode_with_head(v, &node.path, 255) {
                let mut bytes = vec![cmd];
                bytes.extend_from_slice(&b);
                out.push(Fault {
                    kind: "indefinite-length",
                    member: node.name.clone(),
                    expect: 0x12,
                    bytes,
                });
            }
        }
        if node.path.is_empty() {
            continue;
        }
        let put = |kind: &'static str, x: V, out: &mut Vec<Fault>| {
            let mut m = v.clone();
            if let Some(slot) = at_mut(&mut m, &node.path) {
                *slot = x;
                out.push(Fault {
                    kind,
                    member: node.name.clone(),
                    expect: 0x12,
                    bytes: msg(cmd, &m),
                });
            }
        };
        // ---- wrong CBOR type
        let acc = accepted_classes(node.s);
        for (class, sample) in type_samples() {
            if acc.contains(&class) || class == major_class(&here) {
                continue;
            }
            if matches!(node.s, S::Int { .. }) && (class == "unsigned" || class == "negative") {
                continue; // sign changes of signed members are not faults
            }
            put("wrong-type", sample, out);
        }
        // ---- ill-formed UTF-8 inside a text string (malformed CBOR: major type 3 must hold UTF-8)
        if matches!(node.s, S::Text { .. } | S::TextTrunc { .. } | S::TextDropIfLonger { .. } | S::TextDiscard) {
            for (bi, bad) in crate::mutate::bad_utf8_samples().into_iter().enumerate() {
                if bi % 3 != (node.path.len() % 3) && bi > 5 {
                    continue;
                }
                let mut t = b"ab".to_vec();
                t.extend_from_slice(&bad);
                t.push(b'c');
                if std::str::from_utf8(&t).is_err() {
                    put("ill-formed-utf8", V::T(t), out);
                }
            }
        }
        // ---- one past the limit / range (non-lossy members only)
        match node.s {
            S::Bytes { min, max } => {
                if *max != UNB {
                    put("over-capacity", V::B(rng.bytes(max + 1)), out);
                }
                if *min > 0 {
                    put("under-length", V::B(rng.bytes(min - 1)), out);
                }
            }
            S::Text { max } if *max != UNB => {
                put("over-capacity", V::text(&rng.ascii(max + 1)), out);
                put("over-capacity", V::text(&rng.text_bytes(max + 1)), out);
            }
            S::UInt { max } => {
                put("over-range", V::U(max + 1), out);
                if *max < 0xffff_ffff {
                    put("over-range", V::U(0x1_0000_0000), out);
                }
                put("over-range", V::U(u64::MAX), out);
            }
            S::UEnum(vals) => {
                for cand in [0u64, 8, 10, 24, 255, 256] {
                    if !vals.contains(&cand) {
                        put("outside-enumeration", V::U(cand), out);
                    }
                }
            }
            S::Int { min, max } => {
                put("over-range", V::int(max + 1), out);
                put("over-range", V::int(min - 1), out);
                put("over-range", V::U(u64::MAX), out);
                put("over-range", V::N(u64::MAX), out);
            }
            S::Array { max, .. } => {
                let cur = here.as_arr().cloned().unwrap_or_default();
                let proto = cur.first().cloned().unwrap_or_else(|| {
                    V::M(vec![(V::text("id"), V::B(vec![1])), (V::text("type"), V::text("public-key"))])
                });
                let mut a = cur.clone();
                while a.len() < max + 1 {
                    a.push(crate::mutate::shrink(&proto));
                }
                put("over-capacity", V::A(a), out);
            }
            _ => {}
        }
    }
}

/// every node of a plain value (keys included), as paths below `cur`
fn vpaths(v: &V, cur: &mut schema::Path, out: &mut Vec<schema::Path>) {
    out.push(cur.clone());
    match v {
        V::A(a) => {
            for (i, x) in a.iter().enumerate() {
                cur.push(Step::Elem(i));
                vpaths(x, cur, out);
                cur.pop();
            }
        }
        V::M(m) => {
            for (i, (k, x)) in m.iter().enumerate() {
                cur.push(Step::MapKey(i));
                vpaths(k, cur, out);
                cur.pop();
                cur.push(Step::MapVal(i));
                vpaths(x, cur, out);
                cur.pop();
            }
        }
        _ => {}
    }
}

fn head_is_wider(v: &V, w: u8) -> bool {
    let n = match v {
        V::U(n) | V::N(n) => *n,
        V::B(b) | V::T(b) => b.len() as u64,
        V::A(a) => a.len() as u64,
        V::M(m) => m.len() as u64,
        _ => return false,
    };
    let minw = match crate::cbor::head_len(n) {
        1 => 0,
        2 => 1,
        3 => 2,
        5 => 4,
        _ => 8,
    };
    w > minw
}

pub fn judge_fault(rep: &mut Rep, cmd_name: &str, f: &Fault) {
    rep.input(&f.bytes, true);
    let d = decode(&f.bytes);
    let got = match &d {
        Decoded::Err(s) => status_name(*s),
        Decoded::Ok(n, _) => format!("accepted-as-{}", n),
        Decoded::Panic(p) => format!("panic@{}", panic_site(p)),
    };
    rep.count(&format!("fault/{}/{}", f.kind, got), 1);
    rep.sample(|| {
        format!(
            "{} {} on {:?}: {} -> {}",
            cmd_name,
            f.kind,
            f.member,
            crate::cbor::hex(&f.bytes[..f.bytes.len().min(80)]),
            got
        )
    });
    if d != Decoded::Err(f.expect) {
        rep.violation(
            &format!(
                "C05|{}|{}|{}|expected={}|got={}",
                cmd_name,
                f.kind,
                stable_path(&f.member),
                status_name(f.expect),
                got
            ),
            format!(
                "fault {} on member {:?} must be answered with {}, observed {}",
                f.kind,
                f.member,
                status_name(f.expect),
                got
            ),
            &f.bytes,
        );
    }
}

pub fn run(rep: &mut Rep) {
    let seed = rep.seed;
    let mut cmds = schema::commands();
    let cm = cmds.iter().find(|c| c.0 == 0x0a).unwrap().2.clone();
    cmds.push((0x41, "CredentialManagement(0x41)", cm));
    let mut case = 0u64;
    for (cmd, name, s) in &cmds {
        let n = rep.n(48, 2400);
        for i in 0..n * rep.nshards {
            case += 1;
            if !rep.mine(case) {
                continue;
            }
            let mut rng = Rng::derive(seed, "c05", case);
            let mut g = G::new(&mut rng);
            match i % 4 {
                0 => {
                    g.top_mask = Some(0);
                    g.nested = Nested::OnlyRequired;
                }
                1 => {
                    g.top_mask = Some(u64::MAX);
                    g.nested = Nested::All;
                }
                _ => g.nested = Nested::Random,
            }
            g.small = i % 4 != 1 || i % 8 == 1;
            let v = gen_message(s, &mut g);
            // the seed itself must be accepted (otherwise the faults prove nothing)
            let whole = msg(*cmd, &v);
            if !matches!(decode(&whole), Decoded::Ok(..)) {
                rep.count("seed_not_accepted(judged under C01)", 1);
                continue;
            }
            let mut fs = Vec::new();
            faults(*cmd, s, &v, &mut rng, &mut fs);
            let step = if rep.light { (fs.len() / 12).max(1) } else { 1 };
            for (j, f) in fs.iter().enumerate() {
                if j % step != 0 {
                    continue;
                }
                if rep.begin(&format!("{}/{}", name, f.kind)) {
                    judge_fault(rep, name, f);
                }
            }
        }
    }
    // ---- a second, encoding-level fault in a map that ALSO lacks required parameters.  MissingParameter
    //      is reserved for an *otherwise well-formed* map: a truncated, non-canonical, indefinite-length
    //      or duplicate-key map stays InvalidCbor however few members it announces (down to the
    //      headers A0..A3).  Value-level second faults (wrong type, over capacity) are not asserted here.
    for (cmd, name, s) in &cmds {
        let Some(ms) = as_map_schema(s) else { continue };
        let n = rep.n(24, 1200);
        for i in 0..n * rep.nshards {
            case += 1;
            if !rep.mine(case) {
                continue;
            }
            let mut rng = Rng::derive(seed, "c05-double", case);
            let mut g = G::new(&mut rng);
            match i % 3 {
                0 => {
                    g.top_mask = Some(0);
                    g.nested = Nested::OnlyRequired;
                }
                1 => g.nested = Nested::Random,
                _ => {
                    g.top_mask = Some(u64::MAX);
                    g.nested = Nested::All;
                }
            }
            g.small = true;
            let mut v = gen_message(s, &mut g);
            // remove a non-empty subset of the required top-level parameters (i % 4 == 0: all of them)
            let mut removed = 0;
            if let V::M(e) = &mut v {
                let req: Vec<V> = e.iter().filter(|(k, _)| member_of(ms, k).map(|m| m.required).unwrap_or(false)).map(|(k, _)| k.clone()).collect();
                if req.is_empty() {
                    continue;
                }
                let forced = rng.usize(req.len());
                for (j, k) in req.iter().enumerate() {
                    if i % 4 == 0 || j == forced || rng.bool() {
                        e.retain(|(k2, _)| k2 != k);
                        removed += 1;
                    }
                }
                // and, half of the time, the optional ones too: very short maps
                if i % 2 == 0 {
                    e.retain(|(k, _)| member_of(ms, k).map(|m| m.required).unwrap_or(true) || rng.bool());
                }
            }
            if removed == 0 {
                continue;
            }
            if rep.begin(&format!("{}/remove-required-several", name)) {
                let f = Fault { kind: "remove-required-several", member: format!("{} required parameters", removed), expect: 0x14, bytes: msg(*cmd, &v) };
                judge_fault(rep, name, &f);
            }
            let mut fs = Vec::new();
            faults(*cmd, s, &v, &mut rng, &mut fs);
            let whole_len = msg(*cmd, &v).len();
            let step = if rep.light { 12 } else { 1 };
            for (j, f) in fs.iter().enumerate() {
                if j % step != 0 {
                    continue;
                }
                let kind: &'static str = match f.kind {
                    "truncate" if f.bytes.len() < whole_len => "missing-required+truncate",
                    "duplicate-key" | "duplicate-key-alias" => "missing-required+duplicate-key",
                    "non-minimal-key" | "non-minimal-head" => "missing-required+non-minimal",
                    "reserved-additional-info" => "missing-required+reserved-additional-info",
                    "indefinite-length" => "missing-required+indefinite-length",
                    "ill-formed-utf8" => "missing-required+ill-formed-utf8",
                    _ => continue,
                };
                if rep.begin(&format!("{}/{}", name, kind)) {
                    let f2 = Fault { kind, member: f.member.clone(), expect: 0x12, bytes: f.bytes.clone() };
                    judge_fault(rep, name, &f2);
                }
            }
        }
    }
    // ---- malformed CBOR inside the value of an UNKNOWN member (the generic skipper's error paths):
    //      reserved additional information on any head and indefinite-length strings/containers
    //      are malformed wherever they occur.  (Non-minimal heads inside unknown values are not
    //      injected: C06 asks for every well-formed definite-length value to be skipped.)
    let ext_cmds: Vec<(u8, &'static str, S)> = cmds.iter().filter(|c| matches!(c.0, 0x01 | 0x02 | 0x0a)).cloned().collect();
    for (cmd, name, s) in &ext_cmds {
        let n = rep.n(24, 1200);
        for _ in 0..n * rep.nshards {
            case += 1;
            if !rep.mine(case) {
                continue;
            }
            let mut rng = Rng::derive(seed, "c05-unknown", case);
            let mut g = G::new(&mut rng);
            g.top_mask = Some(u64::MAX);
            g.nested = Nested::All;
            g.small = true;
            let v = gen_message(s, &mut g);
            let hosts: Vec<schema::Path> = nodes(s, &v)
                .into_iter()
                .filter(|nd| matches!(nd.s, S::Map(ms) if ms.extensible))
                .map(|nd| nd.path)
                .collect();
            if hosts.is_empty() {
                continue;
            }
            let host = hosts[rng.usize(hosts.len())].clone();
            let mut budget = 160;
            let val = crate::mon::c06::gen_unknown_value(&mut rng, 4, &mut budget);
            let mut m = v.clone();
            let idx = match at_mut(&mut m, &host) {
                Some(V::M(e)) => {
                    let pos = rng.usize(e.len() + 1);
                    e.insert(pos, (V::text("zzUnknownMember"), val.clone()));
                    pos
                }
                _ => continue,
            };
            if !matches!(decode(&msg(*cmd, &m)), Decoded::Ok(..)) {
                rep.count("seed_with_unknown_member_not_accepted(judged under C06)", 1);
                continue;
            }
            let mut base = host.clone();
            base.push(Step::MapVal(idx));
            let mut subpaths = Vec::new();
            vpaths(&val, &mut base.clone(), &mut subpaths);
            for sp in subpaths {
                let here = at(&m, &sp).cloned().unwrap_or(V::Null);
                let mut ws: Vec<(u8, &'static str)> = vec![(28, "reserved-additional-info-in-unknown"), (29, "reserved-additional-info-in-unknown"), (30, "reserved-additional-info-in-unknown")];
                match here {
                    V::U(_) | V::N(_) => ws.push((31, "reserved-additional-info-in-unknown")),
                    V::B(_) | V::T(_) | V::A(_) | V::M(_) => ws.push((255, "indefinite-length-in-unknown")),
                    _ => continue,
                }
                for (w, kind) in ws {
                    if let Some(b) = encode_with_head(&m, &sp, w) {
                        let mut bytes = vec![*cmd];
                        bytes.extend_from_slice(&b);
                        if rep.begin(&format!("{}/{}", name, kind)) {
                            let f = Fault { kind, member: "unknown-member-value".into(), expect: 0x12, bytes };
                            judge_fault(rep, name, &f);
                        }
                    }
                }
            }
        }
    }
    // all 256 command bytes with empty / valid / garbage payloads
    let assigned: [u8; 10] = [0x01, 0x02, 0x04, 0x06, 0x07, 0x08, 0x0a, 0x0b, 0x0c, 0x41];
    let mut rng = Rng::derive(seed, "c05-cmd", 0);
    let mut g = G::new(&mut rng);
    g.small = true;
    let valid_body = encode(&gen_message(&schema::large_blobs(), &mut g));
    for cmd in 0..=255u8 {
        if !rep.mine(cmd as u64) {
            continue;
        }
        let supported = assigned.contains(&cmd) || (0x42..=0x7f).contains(&cmd);
        if supported {
            continue;
        }
        for (pk, payload) in [
            ("empty", vec![]),
            ("valid-map", valid_body.clone()),
            ("garbage", vec![0xff, 0x00, 0x9f]),
            ("a0", vec![0xa0]),
        ] {
            let mut b = vec![cmd];
            b.extend_from_slice(&payload);
            if rep.begin(&format!("command-byte/{}", pk)) {
                let f = Fault {
                    kind: "unsupported-command",
                    member: String::new(),
                    expect: 0x01,
                    bytes: b,
                };
                judge_fault(rep, "any", &f);
            }
        }
    }
    // messages beyond the 7609-byte transport maximum: whatever is rejected is still answered with one
    // of the three codes (fault classes as for shorter inputs)
    let mut k = 0u64;
    for &len in &[7610usize, 7611, 8000, 16384, 65536] {
        for (kind, cmd, fill, expect) in [
            ("oversize/unassigned-command", 0x03u8, 0x00u8, 0x01u8),
            ("oversize/unsupported-command", 0x0du8, 0xa0, 0x01),
            ("oversize/garbage", 0x01, 0xff, 0x12),
            ("oversize/truncated-map", 0x02, 0xbb, 0x12),
            ("oversize/zeros", 0x06, 0x00, 0x12),
        ] {
            k += 1;
            if !rep.mine(k) {
                continue;
            }
            let mut b = vec![cmd];
            b.resize(len, fill);
            if rep.begin(kind) {
                let f = Fault {
                    kind: "oversize-message",
                    member: String::new(),
                    expect,
                    bytes: b,
                };
                judge_fault(rep, "any", &f);
            }
        }
        // a well-formed map that lacks a required parameter, padded by a huge optional member
        k += 1;
        if rep.mine(k) && rep.begin("oversize/missing-required") {
            let body = V::M(vec![(V::U(2), V::B(vec![0x5a; len]))]);
            let f = Fault {
                kind: "oversize-message-missing-required",
                member: "offset".into(),
                expect: 0x14,
                bytes: msg(0x0c, &body),
            };
            judge_fault(rep, "LargeBlobs", &f);
        }
    }
    // the empty message
    if rep.shard == 0 && rep.begin("empty-message") {
        let f = Fault {
            kind: "empty-message",
            member: String::new(),
            expect: 0x12,
            bytes: vec![],
        };
        judge_fault(rep, "any", &f);
    }
}
