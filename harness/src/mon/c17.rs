//! C17 — a response fits the transport buffer completely or becomes the single byte 0x7F.
//!
//! `Response::serialize::<N>` is generic over the capacity: build.rs instantiates N densely
//! (1..=800) and in windows around the larger sizes; bodies are steered so that the fit frontier
//! (N = 1 + |body|) falls inside the instantiated capacities.

use crate::cbor::{canonical, encode, hex, V};
use crate::dispatch::c17::{history_n, serialize_n, CAPS};
use crate::report::{guard, panic_site, Rep};
use crate::resp::{expected_bytes, gen_response, Ctl, KINDS};
use crate::rng::Rng;
use ctap_types::ctap2;

/// expected buffer content for capacity n
fn expected(model: &Option<V>, n: usize) -> Vec<u8> {
    let body_len = match model {
        Some(v) => encode(&canonical(v.clone())).len(), // pre-collapse: the empty map is the byte A0
        None => 0,
    };
    if n >= 1 + body_len {
        expected_bytes(model)
    } else {
        vec![0x7f]
    }
}

fn body_len(model: &Option<V>) -> usize {
    match model {
        Some(v) => encode(&canonical(v.clone())).len(),
        None => 0,
    }
}

fn judge_at(rep: &mut Rep, kind: &str, resp: &ctap2::Response, model: &Option<V>, n: usize) {
    let exp = expected(model, n);
    let bl = body_len(model);
    for (pk, prefill) in [("empty", 0usize), ("partial", n / 2), ("partial1", 1.min(n)), ("full", n)] {
        // stale buffer contents: a typical sentinel, a previous error reply, zeroes, an empty-map byte
        let sentinel = [0xEEu8, 0x7f, 0x00, 0xa0][(n + prefill) % 4];
        let got = guard(|| serialize_n(resp, n, prefill, sentinel));
        rep.count(&format!("prefill/{}", pk), 1);
        match got {
            Ok(Some(g)) => {
                if g != exp {
                    let side = if n >= 1 + bl { "fits" } else { "does-not-fit" };
                    let what = if g.len() == 1 && g[0] == 0x7f {
                        "spurious-0x7f"
                    } else if g.first() == Some(&0x00) && g.len() > 1 && g.len() < 1 + bl && g[..] == expected_bytes(model)[..g.len()] {
                        "truncated-body"
                    } else if g.first() == Some(&0x00) && n < 1 + bl {
                        "status-ok-but-does-not-fit"
                    } else {
                        "wrong-content"
                    };
                    rep.violation(
                        &format!("C17|{}|{}|{}|prefill-{}", kind, side, what, if prefill == 0 { "empty" } else { "nonempty" }),
                        format!(
                            "capacity {} body {} bytes prefill {}: expected {} got {}",
                            n,
                            bl,
                            prefill,
                            hex(&exp[..exp.len().min(80)]),
                            hex(&g[..g.len().min(80)])
                        ),
                        &exp,
                    );
                }
            }
            Ok(None) => rep.count("harness_capacity_not_instantiated", 1),
            Err(p) => rep.violation(
                &format!("C17|{}|panic|{}", kind, panic_site(&p)),
                format!("capacity {} body {} prefill {}: {}", n, bl, prefill, p),
                &exp,
            ),
        }
    }
}

fn caps_for(size: usize) -> Vec<usize> {
    caps_for2(size, false)
}

fn caps_for2(size: usize, big: bool) -> Vec<usize> {
    let mut want: Vec<usize> = vec![1, 2, 3, 64, 256, 1024, 3072, 7609];
    if big {
        // capacities beyond any message (zero-filling 128 KiB per probe: sampled, not swept)
        want.extend([8192usize, 16384, 32768, 65535, 65536, 65537, 70000, 131072]);
    }
    for d in 0..=5usize {
        let c = (size + d).saturating_sub(2);
        want.push(c);
    }
    want.retain(|c| *c >= 1 && CAPS.binary_search(c).is_ok());
    want.sort();
    want.dedup();
    want
}

/// generate a response of `kind` whose wire size (1 + |body|) is exactly `target`, if possible
fn steered(kind: &str, seed: u64, case: u64, target: usize) -> Option<(ctap2::Response, Option<V>)> {
    let mut b = target.saturating_sub(120);
    for _ in 0..8 {
        let mut rng = Rng::derive(seed, "c17-steer", case);
        let mut c = Ctl::new(&mut rng);
            c.any_alg = true;
        c.top_mask = Some(u64::MAX);
        c.nested = Some(true);
        c.focus = Some(("packed", 1));
        c.small = true;
        c.bulk = Some(b);
        let (r, m) = gen_response(kind, &mut c);
        let size = 1 + body_len(&m);
        if size == target {
            return Some((r, m));
        }
        if size < target {
            b += target - size;
        } else if b >= size - target {
            b -= size - target;
        } else {
            return None;
        }
    }
    None
}

pub fn run(rep: &mut Rep) {
    let seed = rep.seed;
    let mut case = 0u64;
    // (a) every response kind, subsets from empty to full, capacities around the exact size
    for (kind, k) in KINDS {
        let n = rep.n(400, 400_000);
        for i in 0..n * rep.nshards {
            case += 1;
            if !rep.mine(case) {
                continue;
            }
            let mut rng = Rng::derive(seed, "c17a", case);
            let mask = match i % 4 {
                0 => 0,
                1 => u64::MAX,
                _ => rng.u64(),
            };
            let mut c = Ctl::new(&mut rng);
            c.any_alg = true;
            c.top_mask = Some(if k == 0 { 0 } else { mask });
            c.small = i % 3 != 0;
            let (r, m) = gen_response(kind, &mut c);
            let size = 1 + body_len(&m);
            if !rep.begin(&format!("{}/window", kind)) {
                continue;
            }
            rep.input_hash(crate::rng::hash_bytes(&expected_bytes(&m)) ^ size as u64);
            rep.count_max("max_body_len", body_len(&m) as u64);
            if body_len(&m) <= 1 && m.is_some() {
                rep.count("obs/all-unset-response(body=A0)", 1);
            }
            let caps = caps_for2(size, i % 16 == 5);
            rep.sample(|| format!("{} body {} bytes, capacities {:?}", kind, size - 1, caps));
            for n in caps {
                judge_at(rep, kind, &r, &m, n);
                rep.count("capacity_probes", 1);
            }
        }
    }
    // (b) large bodies steered onto the instantiated windows (frontier across 255/256, 65535.. of
    //     the inner length heads happens on the way)
    let anchors: &[usize] = &[255, 256, 257, 280, 300, 512, 700, 797, 1024, 1280, 1536, 2048, 2560, 3012, 3072];
    let big_kinds = ["MakeCredential", "GetAssertion", "GetNextAssertion", "LargeBlobs", "CredentialManagement"];
    for kind in big_kinds {
        for &a in anchors {
            for off in -2i64..=2 {
                for rpt in 0..rep.n(16, 2000) {
                    case += 1;
                    if !rep.mine(case) {
                        continue;
                    }
                    let target = (a as i64 + off) as usize;
                    let Some((r, m)) = steered(kind, seed, case, target) else {
                        rep.count(&format!("steering_unreachable/{}", kind), 1);
                        continue;
                    };
                    if !rep.begin(&format!("{}/steered", kind)) {
                        continue;
                    }
                    rep.input_hash(crate::rng::hash_bytes(&expected_bytes(&m)) ^ target as u64);
                    rep.count_max("max_body_len", body_len(&m) as u64);
                    for n in caps_for(target) {
                        judge_at(rep, kind, &r, &m, n);
                        rep.count("capacity_probes", 1);
                    }
                    let _ = rpt;
                }
            }
        }
    }
    // (b2) every length 0..=320 (and around 65535 where constructible) of each size-tunable member
    //      on its own, each probed in the window around its exact size: a fit predicate that is
    //      wrong for one particular length (a head-width boundary, an exact constant) shows here
    let tunable: Vec<(&'static str, usize)> = vec![
        ("LargeBlobs", ctap_types::sizes::LARGE_BLOB_MAX_FRAGMENT_LENGTH.min(3008)),
        ("MakeCredential", 676),
        ("GetAssertion", 676),
    ];
    for (kind, cap) in tunable {
        let mut lens: Vec<usize> = (0..=320usize.min(cap)).collect();
        for extra in [511usize, 512, 513, 676, 1023, 1024, 1025, 3007, 3008] {
            if extra <= cap {
                lens.push(extra);
            }
        }
        for len in lens {
            case += 1;
            if !rep.mine(case) {
                continue;
            }
            let mut rng = Rng::derive(seed, "c17-len", case);
            let mut c = Ctl::new(&mut rng);
            c.top_mask = Some(if kind == "LargeBlobs" { 1 } else { 0 });
            c.small = true;
            c.bulk = Some(len);
            let (r, m) = gen_response(kind, &mut c);
            let size = 1 + body_len(&m);
            if !rep.begin(&format!("{}/every-length", kind)) {
                continue;
            }
            rep.input_hash(crate::rng::hash_bytes(&expected_bytes(&m)) ^ size as u64);
            for n in caps_for(size) {
                judge_at(rep, kind, &r, &m, n);
                rep.count("capacity_probes", 1);
            }
        }
    }
    // (c) histories: one re-used buffer, 50 different responses in a row
    let n = rep.n(64, 30_000);
    for _ in 0..n * rep.nshards {
        case += 1;
        if !rep.mine(case) {
            continue;
        }
        let mut rng = Rng::derive(seed, "c17c", case);
        let cap = loop {
            let c = *rng.pick(CAPS);
            if c % 7 == 1 || c < 64 || c > 800 {
                break c;
            }
        };
        let mut resps = Vec::new();
        let mut models = Vec::new();
        for _ in 0..50 {
            let (kind, _) = KINDS[rng.usize(KINDS.len())];
            let mut c = Ctl::new(&mut rng);
            c.any_alg = true;
            c.small = true;
            if c.rng.chance(1, 4) {
                c.top_mask = Some(0);
            }
            let (r, m) = gen_response(kind, &mut c);
            resps.push(r);
            models.push(m);
        }
        if !rep.begin("history/reused-buffer") {
            continue;
        }
        rep.input_hash(rng.u64());
        match guard(|| history_n(&resps, cap)) {
            Ok(Some(outs)) => {
                for (i, o) in outs.iter().enumerate() {
                    let exp = expected(&models[i], cap);
                    rep.count("history_steps", 1);
                    if *o != exp {
                        rep.violation(
                            "C17|history|step-differs-from-fresh-buffer",
                            format!("capacity {} step {}: expected {} got {}", cap, i, hex(&exp[..exp.len().min(60)]), hex(&o[..o.len().min(60)])),
                            &exp,
                        );
                    }
                }
            }
            Ok(None) => rep.count("harness_capacity_not_instantiated", 1),
            Err(p) => rep.violation(&format!("C17|history|panic|{}", panic_site(&p)), p, &[]),
        }
    }
}
