//! C16 — cargo features only add members; they never change the wire format of the rest.
//!
//! Each feature build emits a transcript over the same seed-determined corpus restricted to the
//! members every configuration knows: `enc <id> <kind> <hex>` for responses built through the
//! public API, `dec <id> <hex> => <projection>` for requests.  The driver compares the transcripts
//! of all builds line by line (offline checker).  Independently every line is judged against the
//! model here, so "all configurations wrong in the same way" is not a pass.

use crate::cbor::{encode, hex};
use crate::report::Rep;
use crate::resp::{gen_response, Ctl, KINDS};
use crate::rng::Rng;
use crate::schema::{self, gen_message, Nested, G};
use crate::util::{decode, status_name, Decoded};
use std::sync::atomic::Ordering;

pub fn run(rep: &mut Rep) {
    schema::COMMON_ONLY.store(true, Ordering::Relaxed);
    let seed = rep.seed;
    let mut case = 0u64;
    // ---- encode side
    let n = rep.n(20_000, 500_000);
    for i in 0..n * rep.nshards {
        case += 1;
        if !rep.mine(case) {
            continue;
        }
        let (kind, _) = KINDS[(i % KINDS.len() as u64) as usize];
        let mut rng = Rng::derive(seed, "c16e", case);
        let mask = match (i / 10) % 4 {
            0 => 0,
            1 => u64::MAX,
            _ => rng.u64(),
        };
        let mut c = Ctl::new(&mut rng);
        c.common_only = true;
        c.top_mask = Some(mask);
        c.small = i % 3 != 0;
        let (resp, model) = gen_response(kind, &mut c);
        if !rep.begin(&format!("enc/{}", kind)) {
            continue;
        }
        crate::mon::c02::judge(rep, "C16", kind, &resp, &model, "common-members");
        let line = match crate::mon::c02::serialize(&resp) {
            Ok(b) => format!("enc {} {} {}", case, kind, hex(&b)),
            Err(p) => format!("enc {} {} PANIC {}", case, kind, crate::report::panic_site(&p)),
        };
        rep.transcript.push(line);
    }
    // ---- decode side
    let mut cmds = schema::commands();
    let cm = cmds.iter().find(|c| c.0 == 0x0a).unwrap().2.clone();
    cmds.push((0x41, "CredentialManagement(0x41)", cm));
    let n = rep.n(20_000, 500_000);
    for i in 0..n * rep.nshards {
        case += 1;
        if !rep.mine(case) {
            continue;
        }
        let (cmd, name, s) = &cmds[(i % cmds.len() as u64) as usize];
        let mut rng = Rng::derive(seed, "c16d", case);
        let mut g = G::new(&mut rng);
        g.nested = match (i / 7) % 3 {
            0 => Nested::All,
            1 => Nested::OnlyRequired,
            _ => Nested::Random,
        };
        if (i / 21) % 2 == 0 {
            g.top_mask = Some(u64::MAX);
        }
        g.small = i % 2 == 0;
        let mut v = gen_message(s, &mut g);
        if i % 11 == 3 {
            // sizes around the feature-dependent large-blob fragment length (3008) and beyond
            let big = *rng.pick(&[3007usize, 3008, 3009, 3072, 4000, 7000]);
            let target = match *cmd {
                0x01 | 0x0a | 0x41 => "pinUvAuthParam",
                0x02 => "clientDataHash",
                0x06 => "newPinEnc",
                _ => "set",
            };
            schema::set_by_name(s, &mut v, target, crate::cbor::V::B(rng.bytes(big)));
        }
        let mut bytes = vec![*cmd];
        bytes.extend_from_slice(&encode(&v));
        // a share of the corpus is rejected input: the status must agree across builds too
        let mut faulty = i % 5 == 4;
        if faulty {
            let cut = 1 + rng.usize(bytes.len());
            bytes.truncate(cut);
        } else if i % 13 == 6 {
            // bytes behind the parameter map: whatever a build makes of them, every build must agree
            let extra: &[u8] = match rng.below(5) {
                0 => &[0x00],
                1 => &[0xff],
                2 => &[0xa0],
                3 => &[0xf6, 0xf6, 0xf6, 0xf6],
                _ => &[0x01, 0xa1, 0x01, 0x00],
            };
            bytes.extend_from_slice(extra);
            faulty = true;
        }
        if !rep.begin(&format!("dec/{}", name)) {
            continue;
        }
        if !faulty {
            crate::mon::c01::judge(rep, "C16", *cmd, name, s, &v, "common-members");
        } else {
            rep.input(&bytes, true);
        }
        let d = match decode(&bytes) {
            Decoded::Ok(n, v) => format!("Ok {} {}", n, hex(&encode(&v))),
            Decoded::Err(e) => format!("Err {}", status_name(e)),
            Decoded::Panic(p) => format!("PANIC {}", crate::report::panic_site(&p)),
        };
        rep.transcript.push(format!("dec {} {} => {}", case, crate::rng::hash_bytes(&bytes), d));
    }
    // ---- authenticator data built from common members only, total size swept across the capacity
    for total in 560..=800usize {
        case += 1;
        if !rep.mine(case) {
            continue;
        }
        if !rep.begin("enc/authenticator-data") {
            continue;
        }
        use ctap_types::ctap2::{make_credential, AuthenticatorDataFlags as F};
        let mut rng = Rng::derive(seed, "c16a", case);
        let hash = [0x11u8; 32];
        let aaguid = [0x22u8; 16];
        let key = rng.bytes(77);
        let id = rng.bytes(total - 37 - 16 - 2 - 77);
        let ad = make_credential::AuthenticatorData {
            rp_id_hash: &hash,
            flags: F::USER_PRESENCE | F::ATTESTED_CREDENTIAL_DATA,
            sign_count: total as u32,
            attested_credential_data: Some(make_credential::AttestedCredentialData {
                aaguid: &aaguid,
                credential_id: &id,
                credential_public_key: &key,
            }),
            extensions: None,
        };
        let line = match crate::report::guard(|| ad.serialize().map(|b| b.to_vec()).map_err(|e| e as u8)) {
            Ok(Ok(b)) => {
                rep.input(&b, true);
                format!("Ok {}", hex(&b))
            }
            Ok(Err(e)) => {
                rep.input(&id, true);
                format!("Err {}", e)
            }
            Err(p) => format!("PANIC {}", crate::report::panic_site(&p)),
        };
        rep.transcript.push(format!("authdata {} {} => {}", case, total, line));
    }
    // ---- decodable response / nested / enumeration types (everything C15 calls bidirectional)
    let table = crate::mon::c15::schema_table();
    let n = rep.n(10_000, 250_000);
    for i in 0..n * rep.nshards {
        case += 1;
        if !rep.mine(case) {
            continue;
        }
        let mut rng = Rng::derive(seed, "c16r", case);
        let which = (i % (table.len() as u64 + 10)) as usize;
        let (name, bytes): (&str, Vec<u8>) = if which < table.len() {
            let (name, s) = &table[which];
            let k = schema::n_optional(s);
            (*name, crate::mon::c15::gen_lossless(s, &mut rng, i / 26, k))
        } else {
            let mut c = Ctl::new(&mut rng);
            c.common_only = true;
            c.small = i % 3 == 0;
            match which - table.len() {
                0 | 1 | 2 => {
                    let (_, m) = crate::resp::gen_get_info(&mut c);
                    ("get_info::Response", encode(&m))
                }
                3 => {
                    let (_, m) = crate::resp::gen_client_pin(&mut c);
                    ("client_pin::Response", encode(&m))
                }
                4 => {
                    let (_, m) = crate::resp::gen_large_blobs(&mut c);
                    ("large_blobs::Response", encode(&m))
                }
                5 => {
                    let (_, m) = crate::resp::gen_ctap_options(&mut c);
                    ("CtapOptions", encode(&m))
                }
                6 => {
                    let k = c.rng.below(4);
                    let (_, m) = crate::resp::gen_cose(c.rng, k);
                    ("cosey::PublicKey", encode(&m))
                }
                7 => {
                    // every identifier of every string enumeration, valid and near-miss spellings
                    let all = crate::mon::c18::REAL_WORLD;
                    let lits = &schema::literals().texts;
                    let k = c.rng.usize(all.len() + lits.len());
                    let t: &str = if k < all.len() { all[k] } else { &lits[k - all.len()] };
                    let ty = ["Version", "Extension", "Transport", "AttestationStatementFormat"][c.rng.usize(4)];
                    (ty, encode(&crate::cbor::V::text(t)))
                }
                _ => {
                    let ty = ["PinV1Subcommand", "Subcommand", "CredentialProtectionPolicy"][c.rng.usize(3)];
                    (ty, encode(&crate::cbor::V::U(c.rng.below(12))))
                }
            }
        };
        // a share of the corpus lacks one (possibly required) member: acceptance must agree too
        let bytes = if i % 4 == 1 {
            match crate::cbor::parse_canonical(&bytes) {
                Ok(crate::cbor::V::M(mut m)) if !m.is_empty() => {
                    let k = rng.usize(m.len());
                    m.remove(k);
                    encode(&crate::cbor::V::M(m))
                }
                _ => bytes,
            }
        } else {
            bytes
        };
        if !rep.begin(&format!("rdec/{}", name)) {
            continue;
        }
        rep.input(&bytes, true);
        let line = match crate::mon::c15::rt_named(name, &bytes) {
            Ok(crate::mon::c15::Rt::Done { reencoded, redecoded_equal }) => format!("Ok {} eq={:?}", hex(&reencoded), redecoded_equal),
            Ok(crate::mon::c15::Rt::Rejected(e)) => format!("Rejected {}", e),
            Ok(crate::mon::c15::Rt::SerErr(e)) => format!("SerErr {}", e),
            Err(p) => format!("PANIC {}", crate::report::panic_site(&p)),
        };
        rep.transcript.push(format!("rdec {} {} {} => {}", case, name, hex(&bytes[..bytes.len().min(64)]), line));
    }
    // the feature-dependent constant, reported per configuration
    rep.note(
        "LARGE_BLOB_MAX_FRAGMENT_LENGTH",
        format!("{}", ctap_types::sizes::LARGE_BLOB_MAX_FRAGMENT_LENGTH),
    );
    schema::COMMON_ONLY.store(false, Ordering::Relaxed);
}
