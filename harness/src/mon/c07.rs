//! C07 — authenticator data is laid out byte-for-byte as WebAuthn specifies.
//!
//! Reference: rpIdHash(32) ‖ flags ‖ signCount_be32 ‖ [aaguid ‖ len_be16 ‖ id ‖ key] ‖ [CBOR ext map];
//! Ok iff total <= 676 and credential id <= 65535 bytes, otherwise Err(Other); never a panic,
//! never shortened output.

use crate::cbor::{encode, hex};
use crate::report::{guard, panic_site, Rep};
use crate::rng::Rng;
use ctap_types::ctap2::{self, get_assertion, make_credential, AuthenticatorDataFlags as F};

const CAP: usize = 676;

fn flags_of(bits4: u8) -> (F, u8) {
    let mut f = F::empty();
    let mut b = 0u8;
    if bits4 & 1 != 0 {
        f |= F::USER_PRESENCE;
        b |= 0x01;
    }
    if bits4 & 2 != 0 {
        f |= F::USER_VERIFIED;
        b |= 0x04;
    }
    if bits4 & 4 != 0 {
        f |= F::ATTESTED_CREDENTIAL_DATA;
        b |= 0x40;
    }
    if bits4 & 8 != 0 {
        f |= F::EXTENSION_DATA;
        b |= 0x80;
    }
    (f, b)
}

struct Case {
    hash: [u8; 32],
    bits4: u8,
    count: u32,
    attested: Option<(Vec<u8>, Vec<u8>, Vec<u8>)>,
    ext_mask: Option<u64>,
}

fn reference(c: &Case, ext_bytes: &Option<Vec<u8>>) -> Result<Vec<u8>, ()> {
    let mut out = Vec::new();
    out.extend_from_slice(&c.hash);
    out.push(flags_of(c.bits4).1);
    out.extend_from_slice(&c.count.to_be_bytes());
    if let Some((aaguid, id, key)) = &c.attested {
        out.extend_from_slice(aaguid);
        if id.len() > 65535 {
            return Err(());
        }
        out.extend_from_slice(&(id.len() as u16).to_be_bytes());
        out.extend_from_slice(id);
        out.extend_from_slice(key);
    }
    if let Some(e) = ext_bytes {
        out.extend_from_slice(e);
    }
    if out.len() > CAP {
        return Err(());
    }
    Ok(out)
}

fn judge(rep: &mut Rep, flavour: &str, c: &Case, got: Result<Result<Vec<u8>, u8>, String>, ext_bytes: &Option<Vec<u8>>) {
    let exp = reference(c, ext_bytes);
    let idl = c.attested.as_ref().map(|a| a.1.len()).unwrap_or(0);
    let desc = format!(
        "{} flags={:#06b} count={:#x} attested={:?} ext={:?}",
        flavour,
        c.bits4,
        c.count,
        c.attested.as_ref().map(|a| (a.0.len(), a.1.len(), a.2.len())),
        ext_bytes.as_ref().map(|e| hex(e))
    );
    if let Ok(e) = &exp {
        rep.input(e, true);
    } else {
        rep.input_hash(crate::rng::hash_bytes(desc.as_bytes()));
    }
    rep.sample(|| format!("{} -> {}", desc, match &exp { Ok(e) => format!("{} bytes", e.len()), Err(_) => "Err(Other)".into() }));
    match (exp, got) {
        (_, Err(p)) => rep.violation(&format!("C07|{}|panic|{}", flavour, panic_site(&p)), format!("{}: {}", desc, p), &[]),
        (Ok(e), Ok(Ok(g))) => {
            if e != g {
                let what = if g.len() < e.len() && e.starts_with(&g) {
                    "shortened-output".to_string()
                } else if g.len() != e.len() {
                    "wrong-length".to_string()
                } else {
                    let i = e.iter().zip(g.iter()).position(|(a, b)| a != b).unwrap_or(0);
                    let region = if i < 32 {
                        "rpIdHash"
                    } else if i == 32 {
                        "flags"
                    } else if i < 37 {
                        "signCount"
                    } else if c.attested.is_some() {
                        let al = c.attested.as_ref().unwrap().0.len();
                        if i < 37 + al {
                            "aaguid"
                        } else if i < 37 + al + 2 {
                            "credentialIdLength"
                        } else if i < 37 + al + 2 + idl {
                            "credentialId"
                        } else {
                            "publicKey-or-extensions"
                        }
                    } else {
                        "extensions"
                    };
                    format!("bytes-differ-in-{}", region)
                };
                rep.violation(
                    &format!("C07|{}|{}", flavour, what),
                    format!("{}: expected {} got {}", desc, hex(&e[..e.len().min(120)]), hex(&g[..g.len().min(120)])),
                    &e,
                );
            }
        }
        (Ok(e), Ok(Err(s))) => rep.violation(
            &format!("C07|{}|spurious-error", flavour),
            format!("{}: total {} bytes fits the 676-byte capacity but the call failed with 0x{:02x}", desc, e.len(), s),
            &e,
        ),
        (Err(()), Ok(Ok(g))) => rep.violation(
            &format!("C07|{}|accepted-oversize", flavour),
            format!("{}: does not fit (or id > 65535) but {} bytes were returned: {}", desc, g.len(), hex(&g[..g.len().min(80)])),
            &g,
        ),
        (Err(()), Ok(Err(s))) => {
            if s != 0x7f {
                rep.violation(
                    &format!("C07|{}|wrong-error", flavour),
                    format!("{}: failure reported as 0x{:02x}, expected Other (0x7f)", desc, s),
                    &[],
                );
            }
            rep.count("refused_oversize", 1);
        }
    }
}

fn run_case(rep: &mut Rep, c: &Case, rng: &mut Rng) {
    let (flags, _) = flags_of(c.bits4);
    // MakeCredential flavour
    {
        let ext = c.ext_mask.map(|m| crate::mon::c03::mc_extensions(rng, m));
        let ext_bytes = ext.as_ref().map(|e| encode(&crate::project::p_mc_extensions(e)));
        let att = c.attested.as_ref().map(|(a, i, k)| make_credential::AttestedCredentialData {
            aaguid: a,
            credential_id: i,
            credential_public_key: k,
        });
        let ad = make_credential::AuthenticatorData {
            rp_id_hash: &c.hash,
            flags,
            sign_count: c.count,
            attested_credential_data: att,
            extensions: ext,
        };
        let got = guard(|| ad.serialize().map(|b| b.to_vec()).map_err(|e| e as u8));
        judge(rep, "make_credential", c, got, &ext_bytes);
    }
    // GetAssertion flavour (no attested data type)
    if c.attested.is_none() {
        let ext = c.ext_mask.map(|m| crate::mon::c03::ga_extensions_output(rng, m));
        let ext_bytes = ext.as_ref().map(|e| encode(&crate::project::p_ga_extensions_output(e)));
        let ad = get_assertion::AuthenticatorData {
            rp_id_hash: &c.hash,
            flags,
            sign_count: c.count,
            attested_credential_data: None,
            extensions: ext,
        };
        let got = guard(|| ad.serialize().map(|b| b.to_vec()).map_err(|e| e as u8));
        judge(rep, "get_assertion", c, got, &ext_bytes);
        // the marker type for "no attested data" must add nothing
        let ad2 = get_assertion::AuthenticatorData {
            rp_id_hash: &c.hash,
            flags,
            sign_count: c.count,
            attested_credential_data: Some(get_assertion::NoAttestedCredentialData),
            extensions: c.ext_mask.map(|m| crate::mon::c03::ga_extensions_output(&mut Rng::new(m), m)),
        };
        let ext_bytes2 = ad2.extensions.as_ref().map(|e| encode(&crate::project::p_ga_extensions_output(e)));
        let got = guard(|| ad2.serialize().map(|b| b.to_vec()).map_err(|e| e as u8));
        judge(rep, "get_assertion(marker)", c, got, &ext_bytes2);
    }
}

pub fn run(rep: &mut Rep) {
    let seed = rep.seed;
    // flag constants against the specification bits
    if rep.shard == 0 && rep.begin("flag-constants") {
        for (f, bit, name) in [
            (F::USER_PRESENCE, 0x01u8, "UP"),
            (F::USER_VERIFIED, 0x04, "UV"),
            (F::ATTESTED_CREDENTIAL_DATA, 0x40, "AT"),
            (F::EXTENSION_DATA, 0x80, "ED"),
        ] {
            if f.bits() != bit {
                rep.violation(&format!("C07|flag-constant|{}", name), format!("{} is {:#04x}, specification says {:#04x}", name, f.bits(), bit), &[]);
            }
        }
    }
    let _ = ctap2::AuthenticatorDataFlags::empty();
    let counters = [0u32, 1, 0xff, 0x100, 0x0102_0304, 0xffff_ffff, 0x8000_0000, 0x00ff_ff00];
    let mut case = 0u64;
    // (a) credential-id lengths 0..=700, crossing the capacity for several key lengths
    let stride = if rep.thorough() { 1 } else { 1 };
    for idl in (0..=700usize).step_by(stride) {
        for &kl in &[0usize, 1, 77, 100, 256, 300] {
            for &al in &[16usize, 0, 17] {
                if !rep.thorough() && al != 16 && idl % 7 != 0 {
                    continue;
                }
                case += 1;
                if !rep.mine(case) {
                    continue;
                }
                let mut rng = Rng::derive(seed, "c07a", case);
                let mut hash = [0u8; 32];
                hash.copy_from_slice(&rng.bytes(32));
                let c = Case {
                    hash,
                    bits4: (case % 16) as u8,
                    count: if rng.bool() { *rng.pick(&counters) } else { rng.u64() as u32 },
                    attested: Some((rng.bytes(al), rng.bytes(idl), rng.bytes(kl))),
                    ext_mask: if rng.chance(1, 3) { Some(rng.below(1 << crate::mon::c03::N_MC_EXT)) } else { None },
                };
                if !rep.begin("attested/id-length-sweep") {
                    continue;
                }
                run_case(rep, &c, &mut rng);
            }
        }
    }
    // (b) huge credential ids
    for &idl in &[65535usize, 65536, 70000, 677, 676, 675] {
        case += 1;
        if !rep.mine(case) {
            continue;
        }
        let mut rng = Rng::derive(seed, "c07b", case);
        let c = Case {
            hash: [7u8; 32],
            bits4: 0b0101,
            count: 9,
            attested: Some((rng.bytes(16), rng.bytes(idl), rng.bytes(77))),
            ext_mask: None,
        };
        if rep.begin("attested/huge-id") {
            run_case(rep, &c, &mut rng);
        }
    }
    // (b2) the aaguid is a caller-supplied slice of any length: sweep it across the capacity too
    for &al in &[0usize, 1, 15, 16, 17, 32, 100, 500, 600, 630, 637, 638, 639, 640, 641, 650, 676, 700, 5000, 65535, 65536, 65537, 65552, 131072] {
        for &(idl, kl) in &[(0usize, 0usize), (1, 1), (10, 20), (16, 77), (0, 77), (0, 65536), (4, 65536 + 77), (0, 131072), (65536, 0)] {
            if al >= 65535 && kl >= 65536 {
                continue;
            }
            for ext in [None, Some(1u64), Some((1u64 << crate::mon::c03::N_MC_EXT) - 1)] {
                case += 1;
                if !rep.mine(case) {
                    continue;
                }
                let mut rng = Rng::derive(seed, "c07b2", case);
                let c = Case {
                    hash: [0x61u8; 32],
                    bits4: (case % 16) as u8,
                    count: rng.u64() as u32,
                    attested: Some((rng.bytes(al), rng.bytes(idl), rng.bytes(kl))),
                    ext_mask: ext,
                };
                if rep.begin("attested/aaguid-length-sweep") {
                    run_case(rep, &c, &mut rng);
                }
            }
        }
    }
    // (c) all 16 flag combinations x counters x every subset of extension outputs, with and
    //     without attested data, independent of the AT/ED flags
    for bits4 in 0..16u8 {
        for &count in &counters {
            for ext in 0..=(1u64 << crate::mon::c03::N_MC_EXT) {
                for att in 0..2 {
                    case += 1;
                    if !rep.mine(case) {
                        continue;
                    }
                    let mut rng = Rng::derive(seed, "c07c", case);
                    let mut hash = [0u8; 32];
                    hash.copy_from_slice(&rng.bytes(32));
                    let c = Case {
                        hash,
                        bits4,
                        count,
                        attested: if att == 1 {
                            let il = rng.usize(300);
                            Some((rng.bytes(16), rng.bytes(il), rng.bytes(77)))
                        } else {
                            None
                        },
                        ext_mask: if ext == (1u64 << crate::mon::c03::N_MC_EXT) { None } else { Some(ext) },
                    };
                    if !rep.begin("flags-x-counters-x-extensions") {
                        continue;
                    }
                    run_case(rep, &c, &mut rng);
                }
            }
        }
    }
    // (d) random
    let n = rep.n(20_000, 20_000_000);
    for _ in 0..n * rep.nshards {
        case += 1;
        if !rep.mine(case) {
            continue;
        }
        let mut rng = Rng::derive(seed, "c07d", case);
        let mut hash = [0u8; 32];
        hash.copy_from_slice(&rng.bytes(32));
        let attested = if rng.bool() {
            let al = *rng.pick(&[16usize, 16, 16, 0, 17]);
            let il = match rng.below(4) {
                0 => rng.usize(64),
                1 => 500 + rng.usize(150),
                _ => rng.usize(700),
            };
            let kl = *rng.pick(&[0usize, 1, 77, 100, 256, 300]);
            Some((rng.bytes(al), rng.bytes(il), rng.bytes(kl)))
        } else {
            None
        };
        let c = Case {
            hash,
            bits4: rng.below(16) as u8,
            count: rng.u64() as u32,
            attested,
            ext_mask: if rng.bool() { Some(rng.below(1 << crate::mon::c03::N_MC_EXT)) } else { None },
        };
        if !rep.begin("random") {
            continue;
        }
        run_case(rep, &c, &mut rng);
    }
}
