//! C14 — algorithm and attestation-format lists are filtered in order, never rejected.
//!
//! Oracle: reference filters (schema::ref_filter_params / ref_filter_formats).  Exhaustive: all
//! lists of length 0..=6 over {ES256, EdDSA, unknown alg, known alg with unknown type}; all lists of
//! length 0..=5 over {packed, none, tpm, arbitrary}.  Random lists up to 64 entries.

use crate::cbor::{encode, V};
use crate::report::{guard, panic_site, Rep};
use crate::rng::Rng;
use crate::schema::{self, gen_message, gen_param, ref_filter_params, set_by_name, Nested, G, S};
use ctap_types::serde::cbor_deserialize;

fn param(alg: i128, ty: &str) -> V {
    V::M(vec![(V::text("alg"), V::int(alg)), (V::text("type"), V::text(ty))])
}

fn letter(rng: &mut Rng, l: u64) -> V {
    match l {
        0 => param(-7, "public-key"),
        1 => param(-8, "public-key"),
        2 => param(
            *rng.pick(&[
                -257i128, -35, -9, -6, 0, 1, -2147483648, 2147483647, -65536, 65529, 65528, -65543, -65544, 249, 248, -263, -264, 7, 8, 6,
                -7 + (1 << 24), -8 - (1 << 24), -7 + (1 << 31) - (1 << 16),
            ]),
            "public-key",
        ),
        _ => param(
            *rng.pick(&[-7i128, -8]),
            *rng.pick(&["public-keys", "", "Public-Key", "x", "public-ke", "public-key\u{0}", "public-key\u{0}\u{0}", "public-key ", " public-key", "public-key\n", "PUBLIC-KEY"]),
        ),
    }
}

fn fletter(rng: &mut Rng, l: u64) -> V {
    match l {
        0 => V::text("packed"),
        1 => V::text("none"),
        2 => V::text(*rng.pick(&[
            "tpm", "Packed", "PACKED", "None", "NONE", "packeD", "nonE", "android-key", "fido-u2f", "apple", " packed", "none ", "packed\u{0}", "none\u{0}",
            "\u{0}none", "packed\n", "none\u{feff}",
        ])),
        _ => {
            // arbitrary identifiers of any length (WebAuthn does not bound them on the wire)
            let n = match rng.below(6) {
                0 => 32,
                1 => 33,
                2 => 64 + rng.usize(64),
                3 => 255 + rng.usize(3),
                _ => rng.usize(30),
            };
            let t = rng.text_bytes(n);
            if t == "packed" || t == "none" {
                V::text("zz")
            } else {
                V::text(&t)
            }
        }
    }
}

struct Ctx {
    mc: S,
    ga: S,
    mc_base: V,
    ga_base: V,
}

fn judge_lists(rep: &mut Rep, ctx: &Ctx, params: Option<&[V]>, formats: Option<&[V]>, tag: &str) {
    let mut m = ctx.mc_base.clone();
    if let Some(p) = params {
        set_by_name(&ctx.mc, &mut m, "pubKeyCredParams", V::A(p.to_vec()));
    }
    if let Some(f) = formats {
        set_by_name(&ctx.mc, &mut m, "attestationFormatsPreference", V::A(f.to_vec()));
    }
    if encode(&m).len() < schema::MAX_MSG {
        crate::mon::c01::judge(rep, "C14", 0x01, "MakeCredential", &ctx.mc, &m, tag);
    }
    if let Some(f) = formats {
        let mut m = ctx.ga_base.clone();
        set_by_name(&ctx.ga, &mut m, "attestationFormatsPreference", V::A(f.to_vec()));
        crate::mon::c01::judge(rep, "C14", 0x02, "GetAssertion", &ctx.ga, &m, tag);
    }
    if let Some(p) = params {
        // GetInfo.algorithms decodes through the same filtered type
        let gi = V::M(vec![
            (V::U(1), V::A(vec![V::text("FIDO_2_0")])),
            (V::U(3), V::B(vec![0x11; 16])),
            (V::U(10), V::A(p.to_vec())),
        ]);
        let b = encode(&gi);
        let r = guard(|| {
            cbor_deserialize::<ctap_types::ctap2::get_info::Response>(&b)
                .map(|r| r.algorithms.as_ref().map(crate::project::p_filtered_params))
                .map_err(|e| format!("{:?}", e))
        });
        let exp = Some(V::A(ref_filter_params(p)));
        match r {
            Ok(Ok(got)) => {
                if got != exp {
                    rep.violation(
                        "C14|get_info.algorithms|value",
                        format!("expected {:?} got {:?} for list {}", exp.map(|v| v.diag()), got.map(|v| v.diag()), V::A(p.to_vec()).diag()),
                        &b,
                    );
                }
            }
            Ok(Err(e)) => rep.violation(
                "C14|get_info.algorithms|rejected",
                format!("list {} rejected: {}", V::A(p.to_vec()).diag(), e),
                &b,
            ),
            Err(pn) => rep.violation(&format!("C14|get_info.algorithms|panic|{}", panic_site(&pn)), pn, &b),
        }
    }
}

pub fn run(rep: &mut Rep) {
    let seed = rep.seed;
    let mc = schema::make_credential();
    let ga = schema::get_assertion();
    let mut rng0 = Rng::derive(seed, "c14-base", 0);
    let mut g = G::new(&mut rng0);
    g.top_mask = Some(u64::MAX);
    g.nested = Nested::All;
    g.small = true;
    let mc_base = gen_message(&mc, &mut g);
    let ga_base = gen_message(&ga, &mut g);
    let ctx = Ctx { mc, ga, mc_base, ga_base };
    let mut case = 0u64;
    // (a) all parameter lists of length 0..=6 over a 4-letter alphabet
    let mut n_lists = 0u64;
    for len in 0..=6u32 {
        for code in 0..4u64.pow(len) {
            case += 1;
            n_lists += 1;
            if !rep.mine(case) {
                continue;
            }
            let mut rng = Rng::derive(seed, "c14a", case);
            let list: Vec<V> = (0..len).map(|i| letter(&mut rng, (code >> (2 * i)) & 3)).collect();
            if !rep.begin("params-exhaustive-len<=6") {
                continue;
            }
            rep.sample(|| format!("params {} -> {}", V::A(list.clone()).diag(), V::A(ref_filter_params(&list)).diag()));
            judge_lists(rep, &ctx, Some(&list), None, "params-exhaustive");
        }
    }
    rep.count("param_lists_enumerated", if rep.shard == 0 { n_lists } else { 0 });
    // (b) all format lists of length 0..=5 over a 4-letter alphabet
    let mut n_f = 0u64;
    for len in 0..=5u32 {
        for code in 0..4u64.pow(len) {
            case += 1;
            n_f += 1;
            if !rep.mine(case) {
                continue;
            }
            let mut rng = Rng::derive(seed, "c14b", case);
            let list: Vec<V> = (0..len).map(|i| fletter(&mut rng, (code >> (2 * i)) & 3)).collect();
            if !rep.begin("formats-exhaustive-len<=5") {
                continue;
            }
            rep.sample(|| format!("formats {}", V::A(list.clone()).diag()));
            judge_lists(rep, &ctx, None, Some(&list), "formats-exhaustive");
        }
    }
    rep.count("format_lists_enumerated", if rep.shard == 0 { n_f } else { 0 });
    // (c0) very long parameter lists ("of any length"): hundreds of unknown entries around the known ones
    let mut long_case = 0u64;
    for &n_unknown in &[100usize, 254, 255, 256, 257, 300, 330, 420, 520] {
        for pos in 0..4 {
            long_case += 1;
            case += 1;
            if !rep.mine(case) {
                continue;
            }
            let mut rng = Rng::derive(seed, "c14-long", long_case);
            // pos 3: every filler entry has an unknown *type* (and a short one, for the size budget)
            let mut list: Vec<V> = (0..n_unknown)
                .map(|i| match if pos == 3 { 1 + i % 2 } else { i % 3 } {
                    0 => param(-257 - (i as i128 % 7), "public-key"),
                    1 => param(-7, ""),
                    _ => param(if n_unknown > 400 { 5 + (i as i128 % 17) } else { (rng.u64() as i16) as i128 * 3 + 1000 }, "pk"),
                })
                .collect();
            let at = match pos {
                0 => 0,
                1 | 3 => n_unknown / 2,
                _ => n_unknown,
            };
            list.insert(at, param(-8, "public-key"));
            list.push(param(-7, "public-key"));
            if !rep.begin("params-very-long") {
                continue;
            }
            rep.count_max("max_param_list_len", list.len() as u64);
            judge_lists(rep, &ctx, Some(&list), None, "very-long");
            // and an equally long attestation-format list
            let mut fl: Vec<V> = (0..n_unknown).map(|i| { let l = 2 + (i as u64 % 2); fletter(&mut rng, l) }).collect();
            fl.insert(at, V::text("none"));
            fl.push(V::text("packed"));
            judge_lists(rep, &ctx, None, Some(&fl), "very-long-formats");
        }
    }
    // (c) random lists up to 64 entries, algs across i32, type strings 0..=32 bytes
    let n = rep.n(4000, 2_000_000);
    for _ in 0..n * rep.nshards {
        case += 1;
        if !rep.mine(case) {
            continue;
        }
        let mut rng = Rng::derive(seed, "c14c", case);
        let len = match rng.below(4) {
            0 => rng.usize(8),
            1 => 12 + rng.usize(5),
            _ => rng.usize(65),
        };
        let list: Vec<V> = (0..len)
            .map(|_| match rng.below(4) {
                0 => {
                    let alg = (rng.u64() as i32 as i128) >> rng.below(31);
                    let tl = rng.usize(33);
                    param(alg, &rng.ascii(tl))
                }
                _ => gen_param(&mut rng),
            })
            .collect();
        let fl = rng.usize(12);
        let flist: Vec<V> = (0..fl).map(|_| { let l = rng.below(4); fletter(&mut rng, l) }).collect();
        if !rep.begin("random-lists") {
            continue;
        }
        rep.count_max("max_param_list_len", len as u64);
        judge_lists(rep, &ctx, Some(&list), Some(&flist), "random");
    }
    // (d) the same kinds of lists inside *varying* host messages: every other member regenerated
    //     (boundary and random values, e.g. enterpriseAttestation 1 and 2, either options), optional
    //     members dropped at random
    let n = rep.n(3000, 1_000_000);
    for _ in 0..n * rep.nshards {
        case += 1;
        if !rep.mine(case) {
            continue;
        }
        let mut rng = Rng::derive(seed, "c14d", case);
        let (mut host_mc, mut host_ga) = {
            let mut g = G::new(&mut rng);
            g.top_mask = Some(u64::MAX);
            g.nested = Nested::Random;
            g.small = true;
            (gen_message(&ctx.mc, &mut g), gen_message(&ctx.ga, &mut g))
        };
        for (host, keep) in [(&mut host_mc, &[1u64, 2, 3, 4, 0x0b][..]), (&mut host_ga, &[1u64, 2, 0x0b][..])] {
            if let V::M(m) = host {
                m.retain(|(k, _)| matches!(k, V::U(x) if keep.contains(x)) || rng.below(3) != 0);
            }
        }
        let len = rng.usize(9);
        let list: Vec<V> = (0..len).map(|_| { let l = rng.below(4); letter(&mut rng, l) }).collect();
        let fl = rng.usize(6);
        let flist: Vec<V> = (0..fl).map(|_| { let l = rng.below(4); fletter(&mut rng, l) }).collect();
        if !rep.begin("varying-host") {
            continue;
        }
        let ctx2 = Ctx { mc: ctx.mc.clone(), ga: ctx.ga.clone(), mc_base: host_mc, ga_base: host_ga };
        judge_lists(rep, &ctx2, Some(&list), Some(&flist), "varying-host");
    }
}
