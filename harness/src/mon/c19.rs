//! C19 — generated fuzzing inputs are always memory-safe, valid request values.
//! Only meaningful in builds with the `arbitrary` feature (cfg f???sa).

use crate::report::Rep;

#[cfg(not(feature = "arb"))]
pub fn run(rep: &mut Rep) {
    rep.note("skipped", "this build does not enable the arbitrary feature".into());
}

#[cfg(feature = "arb")]
pub fn run(rep: &mut Rep) {
    imp::run(rep)
}

#[cfg(feature = "arb")]
mod imp {
    use crate::report::{guard, panic_site, Rep};
    use crate::rng::Rng;
    use arbitrary::{Arbitrary, Unstructured};
    use ctap_types::{authenticator, ctap1, ctap2};

    fn gen_input(rng: &mut Rng, i: u64, light: bool) -> Vec<u8> {
        let mut v = gen_input_full(rng, i);
        if light {
            // interpreter budget: keep the generated requests (and their Debug output) small
            v.truncate(96 + (i % 7) as usize * 48);
        }
        v
    }

    fn gen_input_full(rng: &mut Rng, i: u64) -> Vec<u8> {
        let lens = [0usize, 1, 2, 7, 8, 64, 65, 300, 4096];
        match i % 13 {
            12 => {
                // 8-byte little-endian words holding SMALL numbers (lengths, counts) between runs of
                // well-formed and ill-formed text: the generators read `usize` lengths from the stream
                let n = rng.usize(1200);
                let mut v = Vec::with_capacity(n + 16);
                while v.len() < n {
                    match rng.below(5) {
                        0 | 1 => {
                            let k = match rng.below(4) {
                                0 => rng.below(8),
                                1 => rng.below(70),
                                2 => rng.below(300),
                                _ => *rng.pick(&[0u64, 1, 31, 32, 33, 63, 64, 65, 127, 128, 129, 255, 256, 257]),
                            };
                            v.extend_from_slice(&k.to_le_bytes());
                        }
                        2 => {
                            let l = rng.usize(80);
                            v.extend_from_slice(rng.text_bytes(l).as_bytes());
                        }
                        3 => {
                            let l = rng.usize(40);
                            for _ in 0..l {
                                v.push(*rng.pick(&[0x80u8, 0xbf, 0xc0, 0xc3, 0xe2, 0xf0, 0xff, 0x61, 0xed, 0xa0]));
                            }
                        }
                        _ => {
                            let l = rng.usize(24);
                            v.extend_from_slice(&rng.bytes(l));
                        }
                    }
                }
                v
            }
            11 => {
                // every length 0..=300 (exact-size effects such as "one byte left for the last field")
                let len = (i / 13 % 301) as usize;
                match i / 13 / 301 % 5 {
                    0 => vec![0x00; len],
                    1 => vec![0x01; len],
                    2 => vec![0xff; len],
                    3 => (0..len).map(|k| k as u8).collect(),
                    _ => rng.bytes(len),
                }
            }
            8 | 9 => {
                // long runs of WELL-FORMED text dense in multi-byte characters (so that a character
                // straddles every capacity offset 64 / 128 / 256 for some alignment), behind a few
                // selector bytes and in front of a random tail (arbitrary reads lengths from the end)
                let n = match rng.below(4) {
                    0 => 70 + rng.usize(200),
                    1 => 300 + rng.usize(700),
                    _ => rng.usize(4000),
                };
                let pre = rng.usize(24);
                let mut v = rng.bytes(pre);
                if rng.bool() {
                    for b in v.iter_mut() {
                        *b |= 1; // booleans true: optional members present
                    }
                }
                let homogeneous = i % 13 == 9;
                let w = 2 + rng.usize(3);
                let mut t = String::new();
                for _ in 0..rng.usize(4) {
                    t.push('x');
                }
                while t.len() < n {
                    if homogeneous {
                        t.push(['\u{e9}', '\u{20ac}', '\u{1f600}'][w - 2]);
                    } else {
                        t.push(rng.char());
                    }
                }
                v.extend_from_slice(t.as_bytes());
                let tail = rng.usize(24);
                v.extend_from_slice(&rng.bytes(tail));
                v
            }
            10 => {
                // the same text shape but cut into fields by sprinkled selector bytes
                let n = rng.usize(2000);
                let mut v = Vec::with_capacity(n + 8);
                while v.len() < n {
                    let run = 60 + rng.usize(240);
                    let t = rng.text_bytes(run);
                    v.extend_from_slice(t.as_bytes());
                    let k = rng.usize(6);
                    v.extend_from_slice(&rng.bytes(k));
                }
                v
            }
            0 => {
                // single-byte repeats
                let b = (i / 13 % 256) as u8;
                vec![b; lens[(i / 13 / 256) as usize % lens.len()]]
            }
            1 => {
                let n = rng.usize(4097);
                rng.bytes(n)
            }
            2 => {
                let n = rng.usize(200);
                rng.bytes(n)
            }
            3 | 4 => {
                // biased towards UTF-8 lead / continuation bytes and truncated sequences
                let n = rng.usize(1500);
                let mut v = Vec::with_capacity(n);
                while v.len() < n {
                    match rng.below(10) {
                        0 => v.push(rng.range(0xc2, 0xdf) as u8),
                        1 => v.push(rng.range(0xe0, 0xef) as u8),
                        2 => v.push(rng.range(0xf0, 0xf4) as u8),
                        3 | 4 => v.push(rng.range(0x80, 0xbf) as u8),
                        5 => v.extend_from_slice("\u{20ac}".as_bytes()),
                        6 => v.extend_from_slice("\u{1f600}".as_bytes()),
                        7 => v.push(*rng.pick(&[0xc0u8, 0xc1, 0xf5, 0xff, 0xed, 0xa0])),
                        _ => v.push(rng.range(0x20, 0x7e) as u8),
                    }
                }
                v
            }
            5 => {
                // mostly 0xff / 0x01 so that lengths are large and booleans true
                let n = rng.usize(3000);
                (0..n).map(|_| if rng.chance(3, 4) { 0xff } else { rng.u64() as u8 }).collect()
            }
            6 => {
                let n = rng.usize(3000);
                (0..n).map(|_| if rng.chance(3, 4) { 0x01 } else { rng.u64() as u8 }).collect()
            }
            _ => {
                let n = *rng.pick(&lens);
                rng.bytes(n)
            }
        }
    }

    fn check2(rep: &mut Rep, req: &ctap2::Request, bytes: &[u8]) {
        for (name, b, cap) in crate::project::text_fields(req) {
            if std::str::from_utf8(&b).is_err() {
                rep.violation(&format!("C19|ctap2|ill-formed-utf8|{}", name), format!("{} = {}", name, crate::cbor::hex(&b)), bytes);
            }
            if b.len() > cap {
                rep.violation(&format!("C19|ctap2|over-capacity|{}", name), format!("{} holds {} bytes, capacity {}", name, b.len(), cap), bytes);
            }
        }
        let _ = crate::project::p_request(req);
        let dbg = format!("{:?}", req);
        rep.count_max("max_debug_len", dbg.len() as u64);
        let cl = req.clone();
        if cl != *req {
            rep.violation("C19|ctap2|clone-not-equal", dbg.chars().take(300).collect(), bytes);
        }
        crate::mon::c10::judge2(rep, req, "arbitrary");
        let (n, _) = crate::project::p_request(req);
        rep.count(&format!("variant/ctap2/{}", n), 1);
    }

    fn check1(rep: &mut Rep, req: &ctap1::Request, bytes: &[u8]) {
        let dbg = format!("{:?}", req);
        let cl = req.clone();
        if cl != *req {
            rep.violation("C19|ctap1|clone-not-equal", dbg.chars().take(300).collect(), bytes);
        }
        crate::mon::c10::judge1(rep, req, "arbitrary");
        let n = match req {
            ctap1::Request::Register(_) => "Register",
            ctap1::Request::Authenticate(_) => "Authenticate",
            ctap1::Request::Version => "Version",
        };
        rep.count(&format!("variant/ctap1/{}", n), 1);
    }

    fn err_ok(rep: &mut Rep, which: &str, e: &arbitrary::Error, bytes: &[u8]) {
        rep.count(&format!("error/{}/{:?}", which, e), 1);
        if !matches!(e, arbitrary::Error::NotEnoughData) {
            rep.violation(
                &format!("C19|{}|unexpected-error|{:?}", which, e),
                format!("generation failed with {:?}; the only acceptable failure is that the bytes ran out", e),
                bytes,
            );
        }
    }

    pub fn run(rep: &mut Rep) {
        let seed = rep.seed;
        let n = rep.n(50_000, 20_000_000);
        for case in rep.pick(n * rep.nshards) {
            let i = case - 1;
            let mut rng = Rng::derive(seed, "c19", case);
            let bytes = gen_input(&mut rng, i, rep.light);
            if !rep.begin(match i % 13 {
                12 => "small-length-words",
                11 => "every-length-0..=300",
                0 => "single-byte-repeat",
                3 | 4 => "utf8-biased",
                5 | 6 => "long-lengths",
                8 | 9 | 10 => "well-formed-multibyte-text",
                _ => "random",
            }) {
                continue;
            }
            rep.input(&bytes, bytes.len() >= 2);
            rep.sample(|| format!("{} bytes: {}", bytes.len(), crate::cbor::hex(&bytes[..bytes.len().min(48)])));
            // the second entry point of the trait (what fuzz_target!(|x: T|) uses): the value is built
            // from ALL remaining bytes
            if i % 2 == 0 || bytes.len() <= 300 {
                let r = guard(|| ctap2::Request::arbitrary_take_rest(Unstructured::new(&bytes)));
                match r {
                    Ok(Ok(req)) => check2(rep, &req, &bytes),
                    Ok(Err(e)) => err_ok(rep, "ctap2(take_rest)", &e, &bytes),
                    Err(p) => rep.violation(&format!("C19|ctap2(take_rest)|panic|{}", panic_site(&p)), p, &bytes),
                }
                let r = guard(|| ctap1::Request::arbitrary_take_rest(Unstructured::new(&bytes)));
                match r {
                    Ok(Ok(req)) => check1(rep, &req, &bytes),
                    Ok(Err(e)) => err_ok(rep, "ctap1(take_rest)", &e, &bytes),
                    Err(p) => rep.violation(&format!("C19|ctap1(take_rest)|panic|{}", panic_site(&p)), p, &bytes),
                }
                let r = guard(|| authenticator::Request::arbitrary_take_rest(Unstructured::new(&bytes)));
                match r {
                    Ok(Ok(authenticator::Request::Ctap1(req))) => check1(rep, &req, &bytes),
                    Ok(Ok(authenticator::Request::Ctap2(req))) => check2(rep, &req, &bytes),
                    Ok(Err(e)) => err_ok(rep, "combined(take_rest)", &e, &bytes),
                    Err(p) => rep.violation(&format!("C19|combined(take_rest)|panic|{}", panic_site(&p)), p, &bytes),
                }
            }
            // ctap2
            let r = guard(|| {
                let mut u = Unstructured::new(&bytes);
                ctap2::Request::arbitrary(&mut u)
            });
            match r {
                Ok(Ok(req)) => check2(rep, &req, &bytes),
                Ok(Err(e)) => err_ok(rep, "ctap2", &e, &bytes),
                Err(p) => rep.violation(&format!("C19|ctap2|panic|{}", panic_site(&p)), p, &bytes),
            }
            // ctap1
            let r = guard(|| {
                let mut u = Unstructured::new(&bytes);
                ctap1::Request::arbitrary(&mut u)
            });
            match r {
                Ok(Ok(req)) => check1(rep, &req, &bytes),
                Ok(Err(e)) => err_ok(rep, "ctap1", &e, &bytes),
                Err(p) => rep.violation(&format!("C19|ctap1|panic|{}", panic_site(&p)), p, &bytes),
            }
            // combined
            let r = guard(|| {
                let mut u = Unstructured::new(&bytes);
                authenticator::Request::arbitrary(&mut u)
            });
            match r {
                Ok(Ok(authenticator::Request::Ctap1(req))) => {
                    rep.count("variant/combined/Ctap1", 1);
                    check1(rep, &req, &bytes)
                }
                Ok(Ok(authenticator::Request::Ctap2(req))) => {
                    rep.count("variant/combined/Ctap2", 1);
                    check2(rep, &req, &bytes)
                }
                Ok(Err(e)) => err_ok(rep, "combined", &e, &bytes),
                Err(p) => rep.violation(&format!("C19|combined|panic|{}", panic_site(&p)), p, &bytes),
            }
        }
    }
}
