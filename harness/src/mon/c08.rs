//! C08 — CTAP1/U2F APDU parsing is total and follows the U2F raw message format.
//!
//! APDUs are framed by the harness itself (all four length encodings); the reference decision
//! function is written from the property statement.  The complete header space
//! (class x instruction x P1) is enumerated.

use crate::report::{guard, panic_site, Rep};
use crate::rng::Rng;
use ctap_types::ctap1::{self, ControlByte};
use iso7816::command::CommandView;
use iso7816::Status;

#[derive(Clone, Debug, PartialEq)]
pub enum Exp {
    Err(&'static str),
    Version,
    Register,
    Authenticate(u8),
}

pub fn reference(cla: u8, ins: u8, p1: u8, data: &[u8]) -> Exp {
    if cla != 0 {
        return Exp::Err("ClassNotSupported");
    }
    match ins {
        3 => Exp::Version,
        1 => {
            if data.len() == 64 {
                Exp::Register
            } else {
                Exp::Err("IncorrectDataParameter")
            }
        }
        2 => {
            if !(p1 == 0x03 || p1 == 0x07 || p1 == 0x08) {
                return Exp::Err("IncorrectDataParameter");
            }
            if data.len() < 65 || data.len() != 65 + data[64] as usize {
                return Exp::Err("IncorrectDataParameter");
            }
            Exp::Authenticate(p1)
        }
        _ => Exp::Err("InstructionNotSupportedOrInvalid"),
    }
}

fn status_name(s: Status) -> &'static str {
    if s == Status::ClassNotSupported {
        "ClassNotSupported"
    } else if s == Status::IncorrectDataParameter {
        "IncorrectDataParameter"
    } else if s == Status::InstructionNotSupportedOrInvalid {
        "InstructionNotSupportedOrInvalid"
    } else {
        "other-status"
    }
}

/// encoding: 0 short, 1 short+Le, 2 extended, 3 extended+Le.  None if not expressible.
fn frame(cla: u8, ins: u8, p1: u8, p2: u8, data: &[u8], enc: u8, out: &mut Vec<u8>) -> bool {
    // the expected-length field varies with the header (it must never influence the decision)
    let le: u16 = match (p2 ^ ins) % 5 {
        0 => 0,
        1 => 1,
        2 => 0x00ff,
        3 => 0x0100,
        _ => 0xffff,
    };
    out.clear();
    out.extend_from_slice(&[cla, ins, p1, p2]);
    let n = data.len();
    match enc {
        0 => {
            if n > 255 {
                return false;
            }
            if n > 0 {
                out.push(n as u8);
                out.extend_from_slice(data);
            }
        }
        1 => {
            if n > 255 {
                return false;
            }
            if n > 0 {
                out.push(n as u8);
                out.extend_from_slice(data);
            }
            out.push(le as u8); // Le (0 = 256)
        }
        2 => {
            if n == 0 || n > 65535 {
                return false;
            }
            out.push(0);
            out.extend_from_slice(&(n as u16).to_be_bytes());
            out.extend_from_slice(data);
        }
        _ => {
            if n > 65535 {
                return false;
            }
            out.push(0);
            if n > 0 {
                out.extend_from_slice(&(n as u16).to_be_bytes());
                out.extend_from_slice(data);
            }
            out.extend_from_slice(&le.to_be_bytes()); // Le (0 = 65536)
        }
    }
    true
}

#[derive(Clone, Debug, PartialEq)]
pub enum Got {
    Err(&'static str),
    Version,
    Register { ch: [u8; 32], app: [u8; 32], inside: bool },
    Authenticate { cb: u8, ch: [u8; 32], app: [u8; 32], kh: Vec<u8>, inside: bool },
    NotAnApdu,
}

fn control_number(c: ControlByte) -> u8 {
    match c {
        ControlByte::CheckOnly => 0x07,
        ControlByte::EnforceUserPresenceAndSign => 0x03,
        ControlByte::DontEnforceUserPresenceAndSign => 0x08,
    }
}

fn observe(r: Result<ctap1::Request, Status>, lo: usize, hi: usize) -> Got {
    let inside = |p: *const u8, l: usize| l == 0 || ((p as usize) >= lo && (p as usize) + l <= hi);
    match r {
        Err(s) => Got::Err(status_name(s)),
        Ok(ctap1::Request::Version) => Got::Version,
        Ok(ctap1::Request::Register(r)) => Got::Register {
            ch: *r.challenge,
            app: *r.app_id,
            inside: inside(r.challenge.as_ptr(), 32) && inside(r.app_id.as_ptr(), 32),
        },
        Ok(ctap1::Request::Authenticate(a)) => Got::Authenticate {
            cb: control_number(a.control_byte),
            ch: *a.challenge,
            app: *a.app_id,
            kh: a.key_handle.to_vec(),
            inside: inside(a.challenge.as_ptr(), 32) && inside(a.app_id.as_ptr(), 32) && inside(a.key_handle.as_ptr(), a.key_handle.len()),
        },
    }
}

pub fn via_view(apdu: &[u8]) -> Got {
    match CommandView::try_from(apdu) {
        Err(_) => Got::NotAnApdu,
        Ok(v) => {
            let lo = apdu.as_ptr() as usize;
            observe(ctap1::Request::try_from(v), lo, lo + apdu.len())
        }
    }
}

pub fn via_command<const S: usize>(apdu: &[u8]) -> Got {
    match iso7816::Command::<S>::try_from(apdu) {
        Err(_) => Got::NotAnApdu,
        Ok(c) => {
            let d = c.data();
            let lo = d.as_ptr() as usize;
            let hi = lo + d.len();
            observe(ctap1::Request::try_from(&c), lo, hi)
        }
    }
}

/// Data beyond 65535 bytes cannot be framed in one APDU: it reaches the conversion through command
/// chaining into a large command buffer (`extend_from_command_view`).
fn via_chained<const S: usize>(cla: u8, ins: u8, p1: u8, p2: u8, data: &[u8], buf: &mut Vec<u8>) -> Got {
    let mut chunks = data.chunks(60000);
    let first = chunks.next().unwrap_or(&[]);
    if !frame(cla, ins, p1, p2, first, 3, buf) {
        return Got::NotAnApdu;
    }
    let mut c = match iso7816::Command::<S>::try_from(&buf[..]) {
        Ok(c) => c,
        Err(_) => return Got::NotAnApdu,
    };
    for ch in chunks {
        if !frame(cla, ins, p1, p2, ch, 3, buf) {
            return Got::NotAnApdu;
        }
        let v = match CommandView::try_from(&buf[..]) {
            Ok(v) => v,
            Err(_) => return Got::NotAnApdu,
        };
        if c.extend_from_command_view(v).is_err() {
            return Got::NotAnApdu;
        }
    }
    let d = c.data();
    let lo = d.as_ptr() as usize;
    let hi = lo + d.len();
    observe(ctap1::Request::try_from(&c), lo, hi)
}

struct Counters {
    calls: u64,
    not_apdu: u64,
}

#[inline(never)]
fn judge(rep: &mut Rep, cnt: &mut Counters, cla: u8, ins: u8, p1: u8, p2: u8, data: &[u8], enc: u8, buf: &mut Vec<u8>, entry: u8) -> bool {
    if !frame(cla, ins, p1, p2, data, enc, buf) {
        return true;
    }
    let exp = reference(cla, ins, p1, data);
    let apdu: &[u8] = buf;
    let got = match guard(|| match entry {
        0 => via_view(apdu),
        1 => via_command::<1024>(apdu),
        2 => via_command::<256>(apdu),
        3 => via_command::<7609>(apdu),
        // command buffers of unusual capacity (tiny, exactly fitting, beyond the message limit)
        4 => via_command::<0>(apdu),
        5 => via_command::<1>(apdu),
        6 => via_command::<31>(apdu),
        7 => via_command::<63>(apdu),
        8 => via_command::<64>(apdu),
        9 => via_command::<65>(apdu),
        10 => via_command::<97>(apdu),
        11 => via_command::<320>(apdu),
        _ => via_command::<70000>(apdu),
    }) {
        Ok(g) => g,
        Err(p) => {
            rep.violation(
                &format!("C08|panic|{}", panic_site(&p)),
                format!("cla={:#04x} ins={:#04x} p1={:#04x} data {} bytes enc {}: {}", cla, ins, p1, data.len(), enc, p),
                apdu,
            );
            return false;
        }
    };
    settle(rep, cnt, exp, got, cla, ins, p1, p2, data, enc, entry, apdu)
}

#[allow(clippy::too_many_arguments)]
fn settle(rep: &mut Rep, cnt: &mut Counters, exp: Exp, got: Got, cla: u8, ins: u8, p1: u8, p2: u8, data: &[u8], enc: u8, entry: u8, apdu: &[u8]) -> bool {
    cnt.calls += 1;
    let ok = match (&exp, &got) {
        (_, Got::NotAnApdu) => {
            cnt.not_apdu += 1;
            true
        }
        (Exp::Err(a), Got::Err(b)) => a == b,
        (Exp::Version, Got::Version) => true,
        (Exp::Register, Got::Register { ch, app, inside }) => ch[..] == data[..32] && app[..] == data[32..64] && *inside,
        (Exp::Authenticate(p), Got::Authenticate { cb, ch, app, kh, inside }) => {
            cb == p && ch[..] == data[..32] && app[..] == data[32..64] && kh[..] == data[65..] && *inside
        }
        _ => false,
    };
    if !ok {
        let class = match &exp {
            Exp::Err(e) => e.to_string(),
            Exp::Version => "Version".into(),
            Exp::Register => "Register".into(),
            Exp::Authenticate(_) => "Authenticate".into(),
        };
        let g = match &got {
            Got::Err(e) => e.to_string(),
            Got::Version => "Version".into(),
            Got::Register { .. } => "Register(fields)".into(),
            Got::Authenticate { .. } => "Authenticate(fields)".into(),
            Got::NotAnApdu => "NotAnApdu".into(),
        };
        rep.violation(
            &format!("C08|expected={}|got={}", class, g),
            format!(
                "cla={:#04x} ins={:#04x} p1={:#04x} p2={:#04x} data {} bytes (data[64]={:?}) encoding {} entry {}: expected {:?}, got {:?}",
                cla,
                ins,
                p1,
                p2,
                data.len(),
                data.get(64),
                enc,
                entry,
                exp,
                got
            ),
            apdu,
        );
    }
    ok
}

fn make_data(rng: &mut Rng, len: usize, kh_mode: u8) -> Vec<u8> {
    let mut d = crate::schema::gen_bytes_content(rng, len);
    if len >= 64 && rng.chance(1, 16) {
        // value relation: application parameter equal to the challenge
        let (a, b) = d.split_at_mut(32);
        b[..32].copy_from_slice(a);
    }
    if kh_mode >= 5 {
        // layouts shifted by one byte: a control byte in front of an otherwise consistent payload
        // (length byte at offset 65), or the length byte one position early (offset 63)
        if kh_mode == 5 && len > 65 {
            d[0] = *rng.pick(&[3u8, 7, 8]);
            d[65] = ((len - 66) % 256) as u8;
        } else if len > 63 {
            d[63] = ((len - 64) % 256) as u8;
        }
        return d;
    }
    if len > 64 {
        let consistent = (len - 65) as i64;
        let v = match kh_mode {
            0 => consistent,
            1 => consistent + 1,
            2 => consistent - 1,
            3 => 0,
            _ => 255,
        };
        d[64] = v.rem_euclid(256) as u8;
    }
    d
}

pub fn run(rep: &mut Rep) {
    let seed = rep.seed;
    let mut cnt = Counters { calls: 0, not_apdu: 0 };
    let mut buf = Vec::with_capacity(8192);
    // ---- (1) the complete header space, each header with a rotating schedule of data lengths
    let lens: [usize; 16] = [0, 64, 65, 66, 1, 63, 70, 320, 32, 33, 67, 96, 255, 256, 319, 321];
    let per_header: usize = if rep.thorough() { 16 } else { 2 };
    if !rep.light {
        let mut rng = Rng::derive(seed, "c08-hdr", rep.shard);
        let datas: Vec<Vec<u8>> = lens.iter().map(|&l| make_data(&mut rng, l, 0)).collect();
        let mut executed = 0u64;
        for cla in 0..=255u32 {
            if !rep.mine(cla as u64) {
                continue;
            }
            let before = cnt.calls;
            let r = guard(|| {
                let mut bad = 0u64;
                for ins in 0..=255u32 {
                    for p1 in 0..=255u32 {
                        let h = (cla << 16 | ins << 8 | p1) as usize;
                        for j in 0..per_header {
                            let li = (h + j * 7) % lens.len();
                            let enc = ((h >> 2) + j) as u8 % 4;
                            let entry = ((h >> 4) + j) as u8 % 4;
                            if !judge(rep, &mut cnt, cla as u8, ins as u8, p1 as u8, (h >> 3) as u8, &datas[li], enc, &mut buf, entry) {
                                bad += 1;
                                if bad > 64 {
                                    return;
                                }
                            }
                        }
                    }
                }
            });
            if let Err(p) = r {
                rep.violation(&format!("C08|panic|{}", panic_site(&p)), format!("in header block cla={:#04x}: {}", cla, p), &[]);
            }
            executed += cnt.calls - before;
        }
        rep.bulk("header-space", executed, executed);
        rep.count("headers_enumerated", (256 / rep.nshards.max(1)) * 65536);
    }
    // ---- (2) the decision-relevant sub-space fully crossed
    let clas = [0u8, 1, 0x80, 0x7f];
    let inss = [0u8, 1, 2, 3, 4, 0x20, 0xa4];
    let mut xlens: Vec<usize> = vec![0, 1, 31, 32, 33, 63, 64, 65, 66, 320, 321, 1000];
    for k in [0usize, 1, 254, 255] {
        for d in [-1i64, 0, 1] {
            let l = 65 + k as i64 + d;
            if l >= 0 {
                xlens.push(l as usize);
            }
        }
    }
    xlens.sort();
    xlens.dedup();
    let mut case = 0u64;
    for &cla in &clas {
        for &ins in &inss {
            for p1 in 0..=255u8 {
                case += 1;
                if !rep.mine(case) {
                    continue;
                }
                if !rep.begin("crossed-subspace") {
                    continue;
                }
                let mut rng = Rng::derive(seed, "c08-x", case);
                for &l in &xlens {
                    for kh_mode in 0..7u8 {
                        if l <= 64 && kh_mode > 0 {
                            continue;
                        }
                        let data = make_data(&mut rng, l, kh_mode);
                        for enc in 0..4u8 {
                            for entry in 0..4u8 {
                                if rep.light && (enc + entry + p1) % 4 != 0 {
                                    continue;
                                }
                                judge(rep, &mut cnt, cla, ins, p1, rng.u64() as u8, &data, enc, &mut buf, entry);
                            }
                        }
                    }
                }
                rep.input_hash(crate::rng::mix(case ^ 0xc08));
                rep.sample(|| format!("cla={:#04x} ins={:#04x} p1={:#04x} x {} lengths x 5 data[64] modes x 4 encodings x 4 entry points", cla, ins, p1, xlens.len()));
            }
        }
    }
    // ---- (2b) unusual command-buffer capacities and data beyond the CTAP message limit
    let mut rng2 = Rng::derive(seed, "c08-caps", rep.shard);
    let mut k2 = 0u64;
    for &cla in &[0u8, 1, 0x10, 0x80] {
        for &ins in &[0u8, 1, 2, 3, 4] {
            for &l in &[0usize, 1, 31, 32, 63, 64, 65, 66, 97, 98, 320, 321, 7608, 7609, 7610, 10000, 65535] {
                k2 += 1;
                if !rep.mine(k2) {
                    continue;
                }
                if !rep.begin("capacities-and-huge-data") {
                    continue;
                }
                for kh_mode in 0..2u8 {
                    let data = make_data(&mut rng2, l, kh_mode);
                    for p1 in [3u8, 7, 8, 0] {
                        for enc in 0..4u8 {
                            for entry in [0u8, 4, 5, 6, 7, 8, 9, 10, 11, 12] {
                                judge(rep, &mut cnt, cla, ins, p1, rng2.u64() as u8, &data, enc, &mut buf, entry);
                            }
                        }
                    }
                }
            }
        }
    }
    // ---- (2c) data beyond 65535 bytes: command chaining into a 140 000-byte command buffer (S167)
    let mut k3 = 0u64;
    for &ins in &[1u8, 2, 3, 0] {
        for &l in &[65535usize, 65536, 65536 + 63, 65536 + 64, 65536 + 65, 65536 + 66, 65536 + 65 + 77, 65536 + 65 + 255, 70000, 131072 + 64, 131072 + 65 + 5] {
            for kh_mode in 0..3u8 {
                for p1 in [3u8, 7, 8, 0] {
                    k3 += 1;
                    if !rep.mine(k3) {
                        continue;
                    }
                    if !rep.begin("chained-beyond-65535") {
                        continue;
                    }
                    let data = make_data(&mut rng2, l, kh_mode);
                    let p2 = rng2.u64() as u8;
                    let exp = reference(0, ins, p1, &data);
                    rep.input_hash(crate::rng::mix(k3 ^ 0xc08c));
                    match guard(|| via_chained::<140000>(0, ins, p1, p2, &data, &mut buf)) {
                        Ok(got) => {
                            settle(rep, &mut cnt, exp, got, 0, ins, p1, p2, &data, 3, 99, &data[..80]);
                        }
                        Err(p) => rep.violation(
                            &format!("C08|panic|{}", panic_site(&p)),
                            format!("chained command ins={:#04x} p1={:#04x} data {} bytes: {}", ins, p1, data.len(), p),
                            &data[..80],
                        ),
                    }
                }
            }
        }
    }
    // ---- (3) random APDUs with valid-looking headers
    let n = rep.n(200_000, 20_000_000);
    let mut rng = Rng::derive(seed, "c08-r", rep.shard);
    let n = if rep.light { n / 2000 } else { n };
    for i in 0..n {
        let cla = if rng.chance(3, 4) { 0 } else { rng.u64() as u8 };
        let ins = if rng.chance(3, 4) { 1 + rng.below(3) as u8 } else { rng.u64() as u8 };
        let p1 = if rng.chance(1, 2) { *rng.pick(&[3u8, 7, 8]) } else { rng.u64() as u8 };
        let l = match rng.below(4) {
            0 => 64,
            1 => 65 + rng.usize(256),
            _ => rng.usize(400),
        };
        let mode = if rng.chance(2, 3) { 0 } else { 1 + rng.below(6) as u8 };
        let data = make_data(&mut rng, l, mode);
        if i % 4096 == 0 && !rep.begin("random") {
            continue;
        }
        judge(rep, &mut cnt, cla, ins, p1, rng.u64() as u8, &data, rng.below(4) as u8, &mut buf, rng.below(4) as u8);
    }
    rep.bulk("random-apdus", n, 0);
    rep.count("try_from_calls", cnt.calls);
    rep.count("not_an_apdu(class 0xFF or over-long for the command buffer)", cnt.not_apdu);
}
