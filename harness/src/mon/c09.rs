//! C09 — CTAP1/U2F responses are encoded in the U2F raw message layout.
//!
//! `ctap1::Response::serialize::<S>` is generic over the buffer capacity; build.rs instantiates
//! S in 0..=160 densely and the large transport sizes; free space is swept by pre-filling.

use crate::cbor::hex;
use crate::dispatch::c09::{serialize_s, CAPS};
use crate::report::{guard, panic_site, Rep};
use crate::resp::hb;
use crate::rng::Rng;
use ctap_types::ctap1::{self, authenticate, register};

struct Parts {
    what: &'static str,
    parts: Vec<Vec<u8>>,
}

impl Parts {
    fn total(&self) -> usize {
        self.parts.iter().map(|p| p.len()).sum()
    }
    fn bytes(&self) -> Vec<u8> {
        self.parts.concat()
    }
    fn boundaries(&self) -> Vec<usize> {
        let mut b = vec![0];
        let mut acc = 0;
        for p in &self.parts {
            acc += p.len();
            b.push(acc);
        }
        b
    }
}

fn judge(rep: &mut Rep, resp: &ctap1::Response, parts: &Parts, cap: usize, prefix: &[u8]) {
    let free = cap - prefix.len();
    let total = parts.total();
    rep.count("serialize_calls", 1);
    match guard(|| serialize_s(resp, cap, prefix)) {
        Ok(Some((ok, buf))) => {
            let fits = free >= total;
            let prefix_ok = buf.len() >= prefix.len() && buf[..prefix.len()] == *prefix;
            let mut what = None;
            if !prefix_ok {
                what = Some("prefix-disturbed");
            } else if ok != fits {
                what = Some(if ok { "ok-but-does-not-fit" } else { "err-but-fits" });
            } else if ok {
                let exp = parts.bytes();
                if buf[prefix.len()..] != exp[..] {
                    what = Some(if buf.len() - prefix.len() != exp.len() { "appended-length-wrong" } else { "layout-differs" });
                }
            }
            if let Some(w) = what {
                let exp = parts.bytes();
                rep.violation(
                    &format!("C09|{}|{}", parts.what, w),
                    format!(
                        "capacity {} prefix {} free {} total {} (part boundaries {:?}): ok={} buffer tail {} expected {}",
                        cap,
                        prefix.len(),
                        free,
                        total,
                        parts.boundaries(),
                        ok,
                        hex(&buf[prefix.len().min(buf.len())..][..(buf.len() - prefix.len().min(buf.len())).min(100)]),
                        hex(&exp[..exp.len().min(100)])
                    ),
                    &exp,
                );
            }
        }
        Ok(None) => rep.count("harness_capacity_not_instantiated", 1),
        Err(p) => rep.violation(
            &format!("C09|{}|panic|{}", parts.what, panic_site(&p)),
            format!("capacity {} prefix {} total {}: {}", cap, prefix.len(), total, p),
            &[],
        ),
    }
}

/// Realistic contents: X.509 certificates and ECDSA signatures are DER (`30 82 hi lo …`,
/// `30 len 02 …`), often followed by padding; the declared inner length is made shorter than,
/// equal to and longer than the field.
fn der_like(rng: &mut Rng, n: usize) -> Vec<u8> {
    let mut v = crate::schema::gen_bytes_content(rng, n);
    if n >= 4 && rng.chance(1, 3) {
        let inner = match rng.below(4) {
            0 => n - 4,
            1 => (n - 4).saturating_sub(1 + rng.usize(8)),
            2 => n - 4 + 1 + rng.usize(8),
            _ => rng.usize(n),
        };
        if rng.bool() && n >= 4 {
            v[0] = 0x30;
            v[1] = 0x82;
            v[2] = (inner >> 8) as u8;
            v[3] = inner as u8;
        } else {
            v[0] = 0x30;
            v[1] = (n.saturating_sub(2 + rng.usize(4))) as u8;
            if n > 2 {
                v[2] = 0x02;
            }
        }
        if rng.bool() {
            // zero padding after the DER object
            let pad = rng.usize(6).min(n.saturating_sub(4));
            for b in v.iter_mut().rev().take(pad) {
                *b = 0;
            }
        }
    }
    v
}

fn gen_register(rng: &mut Rng, khl: usize, certl: usize, sigl: usize) -> (ctap1::Response, Parts) {
    let header = rng.u64() as u8;
    let mut pk = {
        let n = if rng.chance(7, 8) { 65 } else { rng.usize(66) };
        rng.bytes(n)
    };
    let mut kh = crate::schema::gen_bytes_content(rng, khl);
    let mut cert = der_like(rng, certl);
    let mut sig = der_like(rng, sigl);
    let r = register::Response {
        header_byte: header,
        public_key: hb(&mut pk),
        key_handle: hb(&mut kh),
        attestation_certificate: hb(&mut cert),
        signature: hb(&mut sig),
    };
    let parts = Parts {
        what: "register",
        parts: vec![vec![header], pk, vec![kh.len() as u8], kh, cert, sig],
    };
    (ctap1::Response::Register(r), parts)
}

fn gen_authenticate(rng: &mut Rng, sigl: usize, count: u32) -> (ctap1::Response, Parts) {
    let up = rng.u64() as u8;
    let mut sig = der_like(rng, sigl);
    let r = authenticate::Response {
        user_presence: up,
        count,
        signature: hb(&mut sig),
    };
    (
        ctap1::Response::Authenticate(r),
        Parts {
            what: "authenticate",
            parts: vec![vec![up], count.to_be_bytes().to_vec(), sig],
        },
    )
}

/// free-space values worth probing for a response with these part boundaries
fn frees(parts: &Parts) -> Vec<usize> {
    let mut f = vec![0usize, 1, 2];
    for b in parts.boundaries() {
        for d in [-1i64, 0, 1] {
            let x = b as i64 + d;
            if x >= 0 {
                f.push(x as usize);
            }
        }
    }
    let t = parts.total();
    f.extend([t + 2, t + 50, t + 1000]);
    f.sort();
    f.dedup();
    f
}

fn sweep(rep: &mut Rep, rng: &mut Rng, resp: &ctap1::Response, parts: &Parts) {
    let total = parts.total();
    for free in frees(parts) {
        // every instantiated capacity that can offer exactly this much free space, a few of them
        let mut tried = 0;
        for &cap in CAPS.iter() {
            if cap < free {
                continue;
            }
            let plen = cap - free;
            // empty buffer for the dense capacities; pre-filled for the large ones
            if plen != 0 && cap <= 160 && tried > 0 {
                continue;
            }
            if plen > 0 && cap > 160 && plen > cap {
                continue;
            }
            let prefix: Vec<u8> = match rng.below(3) {
                0 => vec![0xEE; plen],
                _ => rng.bytes(plen),
            };
            judge(rep, resp, parts, cap, &prefix);
            tried += 1;
            if tried >= 3 {
                break;
            }
        }
        // the largest buffers always
        for &cap in &[1500usize, 4096] {
            if cap >= free {
                judge(rep, resp, parts, cap, &vec![0x5a; cap - free]);
            }
        }
        // buffers beyond 64 KiB (16-bit arithmetic on capacity / free space), sampled
        if rng.chance(1, 6) {
            for &cap in &[65535usize, 65536, 65537, 70000, 131072] {
                if cap >= free {
                    let plen = if rng.bool() { 0 } else { cap - free };
                    judge(rep, resp, parts, cap, &vec![0xc3; plen]);
                }
            }
        }
    }
    rep.count_max("max_response_len", total as u64);
}

pub fn run(rep: &mut Rep) {
    let seed = rep.seed;
    let mut case = 0u64;
    // ---- register::Response::new assembles 0x04 ‖ x ‖ y
    let n = rep.n(2000, 1_000_000);
    for _ in 0..n * rep.nshards {
        case += 1;
        if !rep.mine(case) {
            continue;
        }
        let mut rng = Rng::derive(seed, "c09-new", case);
        let xl = if rng.chance(7, 8) { 32 } else { rng.usize(33) };
        let yl = if rng.chance(7, 8) { 32 } else { rng.usize(33) };
        let (mut x, mut y) = (rng.bytes(xl), rng.bytes(yl));
        let key = cosey::EcdhEsHkdf256PublicKey { x: hb(&mut x), y: hb(&mut y) };
        let (mut kh, mut sig, mut cert) = (rng.bytes(7), rng.bytes(9), rng.bytes(11));
        let hdr = rng.u64() as u8;
        if !rep.begin("register-new") {
            continue;
        }
        let (khb, sigb, certb) = (hb(&mut kh), hb(&mut sig), hb(&mut cert));
        match guard(|| register::Response::new(hdr, &key, khb, sigb, certb)) {
            Ok(r) => {
                let mut exp = vec![0x04];
                exp.extend_from_slice(&x);
                exp.extend_from_slice(&y);
                rep.input(&exp, true);
                if r.public_key[..] != exp[..] || r.header_byte != hdr || r.key_handle[..] != kh[..] || r.signature[..] != sig[..] || r.attestation_certificate[..] != cert[..] {
                    rep.violation(
                        "C09|register-new|fields",
                        format!("public key {} expected {}; kh/sig/cert {:?}/{:?}/{:?}", hex(&r.public_key), hex(&exp), r.key_handle.len(), r.signature.len(), r.attestation_certificate.len()),
                        &exp,
                    );
                }
            }
            Err(p) => rep.violation(&format!("C09|register-new|panic|{}", panic_site(&p)), p, &[]),
        }
    }
    // ---- key-handle lengths 0..=255 all, certificate lengths 0..=1024 all, signature 0..=72 all
    let mut specs: Vec<(usize, usize, usize)> = Vec::new();
    for khl in 0..=255usize {
        specs.push((khl, [0usize, 1, 300, 1024][khl % 4], [0usize, 70, 72, 8][khl % 4]));
    }
    for certl in 0..=1024usize {
        if rep.thorough() || certl % 8 == 0 || certl < 16 || certl > 1016 {
            specs.push(([0usize, 255, 64, 1][certl % 4], certl, [72usize, 0, 71, 1][certl % 4]));
        }
    }
    for sigl in 0..=72usize {
        specs.push(([0usize, 255, 1, 32][sigl % 4], [0usize, 1024, 5, 1][sigl % 4], sigl));
    }
    for (khl, certl, sigl) in specs {
        case += 1;
        if !rep.mine(case) {
            continue;
        }
        let mut rng = Rng::derive(seed, "c09-reg", case);
        let (resp, parts) = gen_register(&mut rng, khl, certl, sigl);
        if !rep.begin("register/length-sweeps") {
            continue;
        }
        rep.input(&parts.bytes(), true);
        rep.sample(|| format!("register kh={} cert={} sig={} -> {} bytes, free-space probes {:?}", khl, certl, sigl, parts.total(), frees(&parts)));
        sweep(rep, &mut rng, &resp, &parts);
    }
    // ---- authenticate: all presence bytes, counters at the big-endian boundaries, sig 0..=72
    let counters = [0u32, 1, 0xff, 0x100, 0xffff, 0x1_0000, 0xff_ffff, 0x100_0000, 0x0102_0304, 0x8000_0000, 0xffff_ffff];
    for sigl in 0..=72usize {
        for (ci, &count) in counters.iter().enumerate() {
            case += 1;
            if !rep.mine(case) {
                continue;
            }
            if !rep.thorough() && (sigl + ci) % 3 != 0 {
                continue;
            }
            let mut rng = Rng::derive(seed, "c09-auth", case);
            let (resp, parts) = gen_authenticate(&mut rng, sigl, count);
            if !rep.begin("authenticate/sweeps") {
                continue;
            }
            rep.input(&parts.bytes(), true);
            rep.sample(|| format!("authenticate sig={} count={:#x} -> {} bytes", sigl, count, parts.total()));
            sweep(rep, &mut rng, &resp, &parts);
            // every capacity 0..=160 with an empty buffer
            for &cap in CAPS.iter().filter(|c| **c <= 160) {
                judge(rep, &resp, &parts, cap, &[]);
            }
        }
    }
    // ---- version
    for v in [*b"U2F_V2", [0u8; 6], [0xff; 6], *b"abcdef"] {
        case += 1;
        if !rep.mine(case) {
            continue;
        }
        let mut rng = Rng::derive(seed, "c09-ver", case);
        let resp = ctap1::Response::Version(v);
        let parts = Parts { what: "version", parts: vec![v.to_vec()] };
        if !rep.begin("version") {
            continue;
        }
        rep.input(&v, true);
        sweep(rep, &mut rng, &resp, &parts);
        for &cap in CAPS.iter().filter(|c| **c <= 160) {
            judge(rep, &resp, &parts, cap, &[]);
        }
    }
    // ---- random + history: a chain of appends into one buffer equals the concatenation
    let n = rep.n(3000, 5_000_000);
    for _ in 0..n * rep.nshards {
        case += 1;
        if !rep.mine(case) {
            continue;
        }
        let mut rng = Rng::derive(seed, "c09-rand", case);
        if !rep.begin("random+history") {
            continue;
        }
        // history: the prefix IS the output of earlier serialisations
        let cap = *rng.pick(&[1024usize, 1500, 2048, 4096]);
        let mut acc: Vec<u8> = Vec::new();
        for _ in 0..rng.range(2, 8) {
            let (resp, parts) = match rng.below(3) {
                0 => {
                    let (k, c, s) = (rng.usize(256), rng.usize(400), rng.usize(73));
                    gen_register(&mut rng, k, c, s)
                }
                1 => {
                    let s = rng.usize(73);
                    let c = rng.u64() as u32;
                    gen_authenticate(&mut rng, s, c)
                }
                _ => (ctap1::Response::Version(*b"U2F_V2"), Parts { what: "version", parts: vec![b"U2F_V2".to_vec()] }),
            };
            if acc.len() > cap {
                break;
            }
            judge(rep, &resp, &parts, cap, &acc);
            if cap - acc.len() >= parts.total() {
                acc.extend_from_slice(&parts.bytes());
            } else {
                break;
            }
        }
        rep.input(&acc, true);
    }
}
