//! C10 — each request reaches exactly the authenticator method for its command.

use crate::cbor::encode;
use crate::mock::{expected2, Mock, MockNoLb, VERSION_CALLS, VERSION_SENTINEL};
use crate::report::{guard, panic_site, Rep};
use crate::rng::Rng;
use crate::schema::{self, gen_message, G};
use ctap_types::ctap1::{self, Authenticator as A1};
use ctap_types::ctap2::{self, Authenticator as A2};
use ctap_types::Rpc;
use std::sync::atomic::Ordering;

use ctap2::Error as E2;
/// every CTAP2 status an authenticator can return
const ERRORS2: [ctap2::Error; 55] = [
    E2::Success, E2::InvalidCommand, E2::InvalidParameter, E2::InvalidLength, E2::InvalidSeq, E2::Timeout, E2::ChannelBusy,
    E2::LockRequired, E2::InvalidChannel, E2::CborUnexpectedType, E2::InvalidCbor, E2::MissingParameter, E2::LimitExceeded,
    E2::UnsupportedExtension, E2::FingerprintDatabaseFull, E2::LargeBlobStorageFull, E2::CredentialExcluded, E2::Processing,
    E2::InvalidCredential, E2::UserActionPending, E2::OperationPending, E2::NoOperations, E2::UnsupportedAlgorithm,
    E2::OperationDenied, E2::KeyStoreFull, E2::NotBusy, E2::NoOperationPending, E2::UnsupportedOption, E2::InvalidOption,
    E2::KeepaliveCancel, E2::NoCredentials, E2::UserActionTimeout, E2::NotAllowed, E2::PinInvalid, E2::PinBlocked,
    E2::PinAuthInvalid, E2::PinAuthBlocked, E2::PinNotSet, E2::PinRequired, E2::PinPolicyViolation, E2::PinTokenExpired,
    E2::RequestTooLarge, E2::ActionTimeout, E2::UpRequired, E2::UvBlocked, E2::IntegrityFailure, E2::InvalidSubcommand,
    E2::UvInvalid, E2::UnauthorizedPermission, E2::Other, E2::SpecLast, E2::ExtensionFirst, E2::ExtensionLast, E2::VendorFirst,
    E2::VendorLast,
];

/// every ISO 7816 status a CTAP1 handler can return: whatever any 16-bit status word parses to,
/// plus the parametrised variants with all 256 parameter values
pub fn all_ctap1_errors() -> Vec<ctap1::Error> {
    let mut v: Vec<ctap1::Error> = Vec::new();
    for sw in 0..=0xffffu32 {
        let s = ctap1::Error::from(sw as u16);
        if !v.contains(&s) {
            v.push(s);
        }
    }
    for p in 0..=255u8 {
        for s in [
            ctap1::Error::MoreAvailable(p),
            ctap1::Error::WarningTriggering(p),
            ctap1::Error::RemainingRetries(p),
            ctap1::Error::ErrorTriggering(p),
        ] {
            if !v.contains(&s) {
                v.push(s);
            }
        }
    }
    v
}

pub fn judge2(rep: &mut Rep, req: &ctap2::Request, tag: &str) {
    let Some((handler, arg, ok_resp)) = expected2(req) else {
        rep.count("unknown_request_variant", 1);
        return;
    };
    let mut behaviours: Vec<Option<ctap2::Error>> = std::iter::once(None).chain(ERRORS2.iter().cloned().map(Some)).collect();
    if rep.light {
        behaviours.truncate(2);
    }
    for (bi, fail) in behaviours.into_iter().enumerate() {
        for entry in 0..2 {
            if rep.light && entry != bi % 2 {
                continue;
            }
            let mut m = Mock::default();
            m.fail2 = fail;
            let r = guard(|| {
                if entry == 0 {
                    m.call_ctap2(req)
                } else {
                    <Mock as Rpc<ctap2::Error, ctap2::Request, ctap2::Response>>::call(&mut m, req)
                }
            });
            rep.count("dispatch_calls", 1);
            let r = match r {
                Ok(r) => r,
                Err(p) => {
                    rep.violation(&format!("C10|ctap2|{}|panic|{}", handler, panic_site(&p)), p, &[]);
                    continue;
                }
            };
            let entry_name = if entry == 0 { "call_ctap2" } else { "Rpc::call" };
            if m.log.len() != 1 || m.log[0].0 != handler {
                rep.violation(
                    &format!("C10|ctap2|{}|wrong-handler-log", handler),
                    format!("{} {} via {}: expected exactly one call of {}, log is {:?}", tag, handler, entry_name, handler, m.log.iter().map(|l| l.0).collect::<Vec<_>>()),
                    &[],
                );
                continue;
            }
            if m.log[0].1 != arg {
                rep.violation(
                    &format!("C10|ctap2|{}|argument-changed", handler),
                    format!("handler saw {} but the request was {}", &m.log[0].1.chars().take(300).collect::<String>(), &arg.chars().take(300).collect::<String>()),
                    &[],
                );
            }
            let expected: Result<ctap2::Response, ctap2::Error> = match fail {
                Some(e) if handler != "get_info" => Err(e),
                _ => Ok(ok_resp.clone()),
            };
            if r != expected {
                rep.violation(
                    &format!("C10|ctap2|{}|wrong-result", handler),
                    format!("via {} with handler behaviour {:?}: got {:?}, expected {:?}", entry_name, fail, short(&r), short(&expected)),
                    &[],
                );
            }
        }
    }
    // the generic entry point must delegate to the (possibly overridden) protocol-specific one
    {
        let mut m = crate::mock::MockOverride::default();
        let r = guard(|| <crate::mock::MockOverride as Rpc<ctap2::Error, ctap2::Request, ctap2::Response>>::call(&mut m, req));
        if r != Ok(Err(ctap2::Error::VendorFirst)) || m.dispatched2 != 1 || !m.inner.log.is_empty() {
            rep.violation(
                &format!("C10|ctap2|{}|rpc-call-bypasses-call_ctap2", handler),
                format!("Rpc::call on an authenticator that overrides call_ctap2: result {:?}, override called {} times, handlers called directly: {:?}", r.map(|x| short(&x)), m.dispatched2, m.inner.log.iter().map(|l| l.0).collect::<Vec<_>>()),
                &[],
            );
        }
    }
    if rep.light && !matches!(req, ctap2::Request::LargeBlobs(_)) {
        return;
    }
    // an authenticator without large blobs
    let mut m = MockNoLb::default();
    let r = guard(|| m.call_ctap2(req));
    match (&r, req) {
        (Ok(res), ctap2::Request::LargeBlobs(_)) => {
            if *res != Err(ctap2::Error::InvalidCommand) || !m.inner.log.is_empty() {
                rep.violation(
                    "C10|ctap2|large_blobs|default-handler",
                    format!("authenticator without large blobs: result {:?}, log {:?}", short(res), m.inner.log.iter().map(|l| l.0).collect::<Vec<_>>()),
                    &[],
                );
            }
        }
        (Ok(res), _) => {
            if *res != Ok(ok_resp.clone()) || m.inner.log.len() != 1 || m.inner.log[0].0 != handler {
                rep.violation(
                    &format!("C10|ctap2|{}|second-mock", handler),
                    format!("result {:?}, log {:?}", short(res), m.inner.log.iter().map(|l| l.0).collect::<Vec<_>>()),
                    &[],
                );
            }
        }
        (Err(p), _) => rep.violation(&format!("C10|ctap2|{}|panic|{}", handler, panic_site(p)), p.clone(), &[]),
    }
}

fn short<T: std::fmt::Debug>(x: &T) -> String {
    format!("{:?}", x).chars().take(240).collect()
}

pub fn judge1(rep: &mut Rep, req: &ctap1::Request, tag: &str) {
    judge1_with(rep, req, tag, &[
        None,
        Some(ctap1::Error::ConditionsOfUseNotSatisfied),
        Some(ctap1::Error::IncorrectDataParameter),
        Some(ctap1::Error::WrongLength),
        Some(ctap1::Error::ClassNotSupported),
        Some(ctap1::Error::InstructionNotSupportedOrInvalid),
        Some(ctap1::Error::UnspecifiedCheckingError),
    ]);
}

pub fn judge1_with(rep: &mut Rep, req: &ctap1::Request, tag: &str, errors: &[Option<ctap1::Error>]) {
    {
        let mut m = crate::mock::MockOverride::default();
        let r = guard(|| <crate::mock::MockOverride as Rpc<ctap1::Error, ctap1::Request, ctap1::Response>>::call(&mut m, req));
        if r != Ok(Err(ctap1::Error::UnspecifiedCheckingError)) || m.dispatched1 != 1 || !m.inner.log.is_empty() {
            rep.violation(
                "C10|ctap1|rpc-call-bypasses-call_ctap1",
                format!("Rpc::call on an authenticator that overrides call_ctap1: result {:?}, override called {} times", r.map(|x| short(&x)), m.dispatched1),
                &[],
            );
        }
    }
    for (bi, fail) in errors.iter().cloned().enumerate() {
        if rep.light && bi >= 2 {
            break;
        }
        for entry in 0..2 {
            if rep.light && entry != bi % 2 {
                continue;
            }
            let mut m = Mock::default();
            m.fail1 = fail;
            let v0 = VERSION_CALLS.load(Ordering::Relaxed);
            let r = guard(|| {
                if entry == 0 {
                    m.call_ctap1(req)
                } else {
                    <Mock as Rpc<ctap1::Error, ctap1::Request, ctap1::Response>>::call(&mut m, req)
                }
            });
            rep.count("dispatch_calls", 1);
            let vcalls = VERSION_CALLS.load(Ordering::Relaxed) - v0;
            let r = match r {
                Ok(r) => r,
                Err(p) => {
                    rep.violation(&format!("C10|ctap1|panic|{}", panic_site(&p)), p, &[]);
                    continue;
                }
            };
            let (handler, arg, ok): (&str, String, ctap1::Response) = match req {
                ctap1::Request::Register(x) => ("register", format!("{:?}", x), ctap1::Response::Register(crate::mock::sentinel_reg())),
                ctap1::Request::Authenticate(x) => ("authenticate", format!("{:?}", x), ctap1::Response::Authenticate(crate::mock::sentinel_auth())),
                ctap1::Request::Version => ("version", String::new(), ctap1::Response::Version(VERSION_SENTINEL)),
            };
            let log_ok = if handler == "version" {
                m.log.is_empty() && vcalls == 1
            } else {
                m.log.len() == 1 && m.log[0].0 == handler && m.log[0].1 == arg && vcalls == 0
            };
            if !log_ok {
                rep.violation(
                    &format!("C10|ctap1|{}|wrong-handler-log", handler),
                    format!("{}: log {:?}, version() calls {}", tag, m.log, vcalls),
                    &[],
                );
            }
            let expected: Result<ctap1::Response, ctap1::Error> = match fail {
                Some(e) if handler != "version" => Err(e),
                _ => Ok(ok),
            };
            if r != expected {
                rep.violation(
                    &format!("C10|ctap1|{}|wrong-result", handler),
                    format!("behaviour {:?} entry {}: got {:?} expected {:?}", fail, entry, short(&r), short(&expected)),
                    &[],
                );
            }
        }
    }
}

pub fn run(rep: &mut Rep) {
    let seed = rep.seed;
    let mut case = 0u64;
    // parameter-less requests and every vendor code the decoder can produce
    let mut simple: Vec<Vec<u8>> = vec![vec![0x04], vec![0x07], vec![0x08], vec![0x0b]];
    for b in 0x42..=0x7fu8 {
        simple.push(vec![b]);
    }
    for msg in simple {
        case += 1;
        if !rep.mine(case) {
            continue;
        }
        if !rep.begin("ctap2/parameterless+vendor") {
            continue;
        }
        rep.input(&msg, true);
        match ctap2::Request::deserialize(&msg) {
            Ok(req) => judge2(rep, &req, &format!("byte 0x{:02x}", msg[0])),
            Err(_) => rep.count("request_not_decodable(judged under C11)", 1),
        }
    }
    // the two further codes only constructible through VendorOperation::try_from
    for b in [0x40u8, 0x41] {
        case += 1;
        if rep.mine(case) && rep.begin("ctap2/vendor-constructed") {
            if let Ok(op) = ctap2::VendorOperation::try_from(b) {
                rep.input(&[b, 0xfe], true);
                judge2(rep, &ctap2::Request::Vendor(op), "constructed vendor");
            }
        }
    }
    // requests with parameters, sampled from the C01 corpus
    let n = rep.n(600, 300_000);
    for (cmd, name, s) in schema::commands() {
        for _ in 0..n * rep.nshards {
            case += 1;
            if !rep.mine(case) {
                continue;
            }
            let mut rng = Rng::derive(seed, "c10", case);
            let mut g = G::new(&mut rng);
            g.small = true;
            let v = gen_message(&s, &mut g);
            let mut msg = vec![cmd];
            msg.extend_from_slice(&encode(&v));
            if !rep.begin(&format!("ctap2/{}", name)) {
                continue;
            }
            rep.input(&msg, true);
            rep.sample(|| format!("{} {}", name, crate::cbor::hex(&msg[..msg.len().min(60)])));
            let decoded = ctap2::Request::deserialize(&msg);
            match &decoded {
                Ok(req) => judge2(rep, req, name),
                Err(_) => rep.count("request_not_decodable(judged under C01)", 1),
            }
            drop(decoded);
        }
    }
    // CTAP1: the complete set of statuses a handler can return, each propagated unchanged
    if rep.shard == 0 && rep.begin("ctap1/every-status") {
        let all: Vec<Option<ctap1::Error>> = all_ctap1_errors().into_iter().map(Some).collect();
        rep.count("ctap1_statuses_enumerated", all.len() as u64);
        let ch = [0x11u8; 32];
        let app = [0x22u8; 32];
        let kh = [0x33u8; 40];
        let reqs = [
            ctap1::Request::Register(ctap1::register::Request { challenge: &ch, app_id: &app }),
            ctap1::Request::Authenticate(ctap1::authenticate::Request {
                control_byte: ctap1::ControlByte::EnforceUserPresenceAndSign,
                challenge: &ch,
                app_id: &app,
                key_handle: &kh,
            }),
        ];
        for r in &reqs {
            judge1_with(rep, r, "every-status", &all);
        }
    }
    // CTAP1
    let n = rep.n(600, 60_000);
    for _ in 0..n * rep.nshards {
        case += 1;
        if !rep.mine(case) {
            continue;
        }
        let mut rng = Rng::derive(seed, "c10-1", case);
        let ch: [u8; 32] = rng.bytes(32).try_into().unwrap();
        let app: [u8; 32] = rng.bytes(32).try_into().unwrap();
        let khl = rng.usize(256);
        let kh = rng.bytes(khl);
        if !rep.begin("ctap1") {
            continue;
        }
        rep.input(&kh, true);
        let reqs = [
            ctap1::Request::Register(ctap1::register::Request { challenge: &ch, app_id: &app }),
            ctap1::Request::Authenticate(ctap1::authenticate::Request {
                control_byte: *rng.pick(&[
                    ctap1::ControlByte::CheckOnly,
                    ctap1::ControlByte::EnforceUserPresenceAndSign,
                    ctap1::ControlByte::DontEnforceUserPresenceAndSign,
                ]),
                challenge: &ch,
                app_id: &app,
                key_handle: &kh,
            }),
            ctap1::Request::Version,
        ];
        for r in &reqs {
            judge1(rep, r, "ctap1");
        }
    }
}
