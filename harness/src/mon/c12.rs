//! C12 — size and range limits are exact; accepted values are never altered to fit.
//!
//! For every bounded member of every command, inside an otherwise valid message: probe the
//! boundary lattice.  Oracle: accepted iff within the specification limit (lossy members follow
//! their documented rule) and, when accepted, the whole decoded request equals the model's
//! normalisation of what was sent (nothing shortened, wrapped, sign-changed or clamped).

use crate::cbor::{encode, V};
use crate::report::{panic_site, Rep};
use crate::rng::Rng;
use crate::schema::{self, at, at_mut, gen_message, nodes, within_limit, Nested, G, S, UNB};
use crate::util::{decode, stable_path, status_name, Decoded};

fn probes(s: &S, cur: &V, rng: &mut Rng) -> Vec<V> {
    let mut out = Vec::new();
    let lens = |max: usize| -> Vec<usize> {
        if max == UNB {
            vec![0, 1, 23, 24, 255, 256, 1000, 5000]
        } else {
            vec![0, 1, max.saturating_sub(1), max, max + 1, 2 * max + 1, 3 * max + 7]
        }
    };
    match s {
        S::Bytes { min, max } => {
            let mut ls = lens(*max);
            if *min > 0 {
                ls.push(min - 1);
            }
            for n in ls {
                out.push(V::B(rng.bytes(n)));
            }
        }
        S::Text { max } | S::TextTrunc { max } | S::TextDropIfLonger { max } => {
            for n in lens(*max) {
                out.push(V::text(&rng.ascii(n)));
                out.push(V::text(&rng.text_bytes(n)));
                out.push(schema::gen_text(rng, n));
            }
            // every harvested literal (and realistic token) as the value, as a prefix and as a suffix
            let lits = &schema::literals().texts;
            for _ in 0..6 {
                if lits.is_empty() {
                    break;
                }
                let w = rng.pick(lits).clone();
                let room = if *max == UNB { 200 } else { *max };
                if w.len() <= room {
                    let fill = rng.usize(room - w.len() + 1);
                    out.push(V::text(&w));
                    out.push(V::text(&format!("{}{}", w, rng.ascii(fill))));
                    out.push(V::text(&format!("{}{}", rng.ascii(fill), w)));
                }
            }
        }
        S::TextDiscard => {
            for n in [0usize, 1, 128, 129, 1000, 5000] {
                out.push(V::text(&rng.ascii(n)));
            }
        }
        S::UInt { max } => {
            for n in [0u64, 1, 23, 24, 255, 256, 65535, 65536, max.saturating_sub(1), *max, max.wrapping_add(1), 1 << 32, 1 << 63, u64::MAX] {
                out.push(V::U(n));
            }
            for n in [0u64, 1, *max, 1 << 32] {
                out.push(V::N(n));
            }
        }
        S::UEnum(vals) => {
            for n in 0..=12u64 {
                out.push(V::U(n));
            }
            out.push(V::U(255));
            out.push(V::U(256));
            out.push(V::U(*vals.iter().max().unwrap() + 1));
        }
        S::Int { min, max } => {
            for i in [0i128, 1, -1, *max - 1, *max, *max + 1, *min + 1, *min, *min - 1, 1 << 32, -(1 << 32), (1 << 63) - 1, -(1 << 63), u64::MAX as i128, -1 - (u64::MAX as i128)] {
                out.push(V::int(i));
            }
        }
        S::Array { max, .. } => {
            let cur = cur.as_arr().cloned().unwrap_or_default();
            let proto = cur.first().cloned().unwrap_or_else(|| {
                V::M(vec![(V::text("id"), V::B(vec![7])), (V::text("type"), V::text("public-key"))])
            });
            for n in [0usize, 1, max.saturating_sub(1), *max, max + 1, 2 * max + 1] {
                let mut a: Vec<V> = cur.iter().cloned().take(n).collect();
                while a.len() < n {
                    let mut e = crate::mutate::shrink(&proto);
                    // keep entries distinguishable
                    if let V::M(m) = &mut e {
                        if let Some((_, V::B(b))) = m.iter_mut().find(|(k, _)| *k == V::text("id")) {
                            *b = vec![a.len() as u8, rng.u64() as u8];
                        }
                    }
                    a.push(e);
                }
                out.push(V::A(a));
            }
        }
        _ => {}
    }
    out
}

pub fn run(rep: &mut Rep) {
    let seed = rep.seed;
    let mut cmds = schema::commands();
    let cm = cmds.iter().find(|c| c.0 == 0x0a).unwrap().2.clone();
    cmds.push((0x41, "CredentialManagement(0x41)", cm));
    let mut case = 0u64;
    for (cmd, name, s) in &cmds {
        let n = rep.n(48, 10_000);
        for i in 0..n * rep.nshards {
            case += 1;
            if !rep.mine(case) {
                continue;
            }
            let mut rng = Rng::derive(seed, "c12", case);
            let mut g = G::new(&mut rng);
            g.top_mask = Some(u64::MAX);
            g.nested = Nested::All;
            g.small = true;
            let base = gen_message(s, &mut g);
            let ns = nodes(s, &base);
            for node in &ns {
                if node.path.is_empty() {
                    continue;
                }
                let cur = at(&base, &node.path).cloned().unwrap_or(V::Null);
                let mut ps = probes(node.s, &cur, &mut rng);
                if rep.light {
                    let keep = rng.usize(ps.len().max(1));
                    ps = ps.into_iter().skip(keep).take(1).collect();
                }
                for p in ps {
                    let Some(within) = within_limit(node.s, &p) else { continue };
                    let mut m = base.clone();
                    if let Some(slot) = at_mut(&mut m, &node.path) {
                        *slot = p.clone();
                    }
                    let mut bytes = vec![*cmd];
                    bytes.extend_from_slice(&encode(&m));
                    if bytes.len() > schema::MAX_MSG {
                        continue;
                    }
                    let member = stable_path(&node.name);
                    if !rep.begin(&format!("{}/{}/{}", name, member, if within { "within" } else { "beyond" })) {
                        continue;
                    }
                    let size = match &p {
                        V::B(b) | V::T(b) => format!("len={}", b.len()),
                        V::A(a) => format!("count={}", a.len()),
                        x => x.diag(),
                    };
                    if within {
                        // full faithful-decode oracle: every member, this one included
                        crate::mon::c01::judge(rep, "C12", *cmd, name, s, &m, &format!("{} {}", member, size));
                    } else {
                        rep.input(&bytes, true);
                        rep.sample(|| format!("{} {} beyond limit -> must be rejected", member, size));
                        match decode(&bytes) {
                            Decoded::Err(e) => {
                                rep.count(&format!("beyond-limit-status/{}", status_name(e)), 1);
                            }
                            Decoded::Ok(_, got) => {
                                // a param entry with an out-of-range alg etc. lives in a lossy list, but the
                                // entry itself must still be well-formed: acceptance is a violation everywhere
                                rep.violation(
                                    &format!("C12|{}|accepted-beyond-limit|{}", name, member),
                                    format!("member {} with {} is beyond its limit but the request was accepted: {}", node.name, size, got.diag().chars().take(300).collect::<String>()),
                                    &bytes,
                                );
                            }
                            Decoded::Panic(pn) => {
                                rep.violation(
                                    &format!("C12|{}|panic|{}", name, panic_site(&pn)),
                                    format!("member {} with {}: decoder panicked: {}", node.name, size, pn),
                                    &bytes,
                                );
                            }
                        }
                    }
                }
            }
            let _ = i;
        }
    }
    standalone_params(rep);
    standalone_allow_list(rep);
}

/// The public alias `get_assertion::AllowList` on its own: exactly 10 descriptors.
fn standalone_allow_list(rep: &mut Rep) {
    use ctap_types::ctap2::get_assertion::AllowList;
    use ctap_types::serde::cbor_deserialize;
    let mut rng = Rng::derive(rep.seed, "c12-allowlist", rep.shard);
    for n in [0usize, 1, 9, 10, 11, 12, 15, 16, 17, 24, 33] {
        let list: Vec<V> = (0..n)
            .map(|i| V::M(vec![(V::text("id"), V::B(vec![i as u8, rng.u64() as u8])), (V::text("type"), V::text("public-key"))]))
            .collect();
        let bytes = encode(&V::A(list));
        if !rep.begin(&format!("standalone-allow-list/{}", if n <= 10 { "within" } else { "beyond" })) {
            continue;
        }
        rep.input(&bytes, true);
        let r = crate::report::guard(|| cbor_deserialize::<AllowList>(&bytes).map(|l| l.len()).map_err(|e| format!("{:?}", e)));
        let bad = match (&r, n <= 10) {
            (Ok(Ok(l)), true) if *l == n => None,
            (Ok(Err(_)), false) => None,
            other => Some(format!("{} descriptors: {:?}", n, other.0)),
        };
        if let Some(b) = bad {
            rep.violation("C12|standalone-allow-list", format!("the allow-list type must hold exactly 10 entries: {}", b), &bytes);
        }
    }
}

/// Stand-alone PublicKeyCredentialParameters: an unknown-but-in-range alg is delivered whole.
fn standalone_params(rep: &mut Rep) {
    use ctap_types::serde::cbor_deserialize;
    use ctap_types::webauthn::PublicKeyCredentialParameters;
    let mut rng = Rng::derive(rep.seed, "c12p", rep.shard);
    let edge: [i128; 22] = [
        0, 1, -1, 23, 24, -24, -25, 255, 256, -256, -257, 65535, 65536, -65536, -65537,
        (1 << 31) - 1, 1 << 31, -(1 << 31), -(1 << 31) - 1, 1 << 32, -(1 << 32), (1 << 63) - 1,
    ];
    let n = rep.n(2000, 200_000);
    for i in 0..n {
        let alg: i128 = if (i as usize) < edge.len() * 4 {
            edge[i as usize % edge.len()]
        } else {
            (rng.u64() as i64 as i128) >> rng.below(40)
        };
        let tl = match rng.below(4) {
            0 => 32,
            1 => 33,
            2 => 31,
            _ => rng.usize(40),
        };
        let ty = if rng.bool() { "public-key".to_string() } else { rng.ascii(tl) };
        let v = V::M(vec![(V::text("alg"), V::int(alg)), (V::text("type"), V::text(&ty))]);
        let bytes = encode(&v);
        let within = alg >= -(1 << 31) && alg < (1 << 31) && ty.len() <= 32;
        if !rep.begin(&format!("standalone-param/{}", if within { "within" } else { "beyond" })) {
            continue;
        }
        rep.input(&bytes, true);
        let r = crate::report::guard(|| {
            cbor_deserialize::<PublicKeyCredentialParameters>(&bytes)
                .map(|p| (p.alg as i128, p.key_type.as_str().to_string()))
                .map_err(|e| format!("{:?}", e))
        });
        let bad = match (&r, within) {
            (Ok(Ok((a, t))), true) => {
                if *a == alg && *t == ty {
                    None
                } else {
                    Some(format!("delivered altered: sent alg={} type={:?}, got alg={} type={:?}", alg, ty, a, t))
                }
            }
            (Ok(Err(_)), false) => None,
            (Ok(Ok(x)), false) => Some(format!("beyond limit (alg={}, type {} bytes) but accepted as {:?}", alg, ty.len(), x)),
            (Ok(Err(e)), true) => Some(format!("within limits (alg={}, type {} bytes) but rejected: {}", alg, ty.len(), e)),
            (Err(p), _) => Some(format!("panic {}", p)),
        };
        if let Some(b) = bad {
            rep.violation("C12|standalone-param", b, &bytes);
        }
    }
}
