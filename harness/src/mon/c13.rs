//! C13 — over-long names are cut on a character boundary; over-long icons are dropped.
//!
//! Oracle: reference truncation computed with std (`is_char_boundary`), independent of the
//! crate's hand-copied routine.  Workload: every arrangement of 1/2/3/4-byte characters in the 8
//! bytes straddling the 64-byte cut for every alignment, all lengths 0..=300, icons 0..=300,
//! ill-formed UTF-8 at every position; inside MakeCredential, CredentialManagement and stand-alone.

use crate::cbor::{encode, V};
use crate::report::{guard, panic_site, Rep};
use crate::rng::Rng;
use crate::schema::{self, gen_message, ref_truncate, set_by_name, Nested, G, S};
use crate::util::{decode, status_name, Decoded};
use ctap_types::serde::cbor_deserialize;
use ctap_types::webauthn::{PublicKeyCredentialRpEntity, PublicKeyCredentialUserEntity};

/// characters that text-processing code tends to treat specially, by UTF-8 width
const SPECIAL_1: [char; 8] = ['\u{0}', ' ', '\t', '\n', '"', '\\', '\u{7f}', '/'];
const SPECIAL_2: [char; 8] = ['\u{a0}', '\u{ad}', '\u{301}', '\u{308}', '\u{5d0}', '\u{627}', '\u{80}', '\u{7ff}'];
const SPECIAL_3: [char; 14] = [
    '\u{200d}', '\u{200c}', '\u{200b}', '\u{200e}', '\u{200f}', '\u{202e}', '\u{2028}', '\u{feff}', '\u{fe0f}', '\u{fffd}',
    '\u{ffff}', '\u{800}', '\u{d7ff}', '\u{e000}',
];
const SPECIAL_4: [char; 6] = ['\u{10000}', '\u{1f600}', '\u{1f3fb}', '\u{e0001}', '\u{100000}', '\u{10ffff}'];

fn char_of_width(rng: &mut Rng, w: usize, fixed: bool) -> char {
    if fixed {
        return ['a', '\u{e9}', '\u{20ac}', '\u{1f600}'][w - 1];
    }
    if rng.chance(1, 3) {
        return match w {
            1 => *rng.pick(&SPECIAL_1),
            2 => *rng.pick(&SPECIAL_2),
            3 => *rng.pick(&SPECIAL_3),
            _ => *rng.pick(&SPECIAL_4),
        };
    }
    let c = match w {
        1 => rng.range(0x20, 0x7e) as u32,
        2 => rng.range(0x80, 0x7ff) as u32,
        3 => {
            let c = rng.range(0x800, 0xffff) as u32;
            if (0xd800..0xe000).contains(&c) {
                0x800
            } else {
                c
            }
        }
        _ => rng.range(0x10000, 0x10ffff) as u32,
    };
    char::from_u32(c).unwrap()
}

/// all compositions of `n` into parts 1..=4
fn compositions(n: usize, cur: &mut Vec<usize>, out: &mut Vec<Vec<usize>>) {
    if n == 0 {
        out.push(cur.clone());
        return;
    }
    for w in 1..=4.min(n) {
        cur.push(w);
        compositions(n - w, cur, out);
        cur.pop();
    }
}

/// A string whose characters starting at byte offset `start` have the widths in `pat`, with a
/// prefix of rotating widths and total length padded to at least `total` bytes.
fn pattern_string(rng: &mut Rng, start: usize, pat: &[usize], total: usize, fixed: bool) -> String {
    let mut s = String::new();
    // prefix: rotating widths, last characters adjusted to land exactly on `start`
    let mut w = 1 + rng.usize(4);
    while s.len() < start {
        let room = start - s.len();
        let ww = w.min(room);
        s.push(char_of_width(rng, ww, fixed));
        w = w % 4 + 1;
    }
    for &w in pat {
        s.push(char_of_width(rng, w, fixed));
    }
    let mut w = 1 + rng.usize(4);
    while s.len() < total {
        let room = total - s.len();
        let ww = w.min(room);
        s.push(char_of_width(rng, ww, fixed));
        w = w % 4 + 1;
    }
    s
}

struct Ctx {
    mc: S,
    cm: S,
    mc_base: V,
    cm_base: V,
}

fn judge_names(rep: &mut Rep, ctx: &Ctx, rp_name: &str, user_name: &str, display: &str, icon: Option<&str>, rp_icon: Option<&str>) {
    // MakeCredential
    let mut m = ctx.mc_base.clone();
    set_by_name(&ctx.mc, &mut m, "rp.name", V::text(rp_name));
    set_by_name(&ctx.mc, &mut m, "user.name", V::text(user_name));
    set_by_name(&ctx.mc, &mut m, "user.displayName", V::text(display));
    if let Some(i) = icon {
        set_by_name(&ctx.mc, &mut m, "user.icon", V::text(i));
    }
    if let Some(i) = rp_icon {
        set_by_name(&ctx.mc, &mut m, "rp.icon", V::text(i));
    }
    crate::mon::c01::judge(rep, "C13", 0x01, "MakeCredential", &ctx.mc, &m, "names");
    // CredentialManagement / UpdateUserInformation
    let mut m = ctx.cm_base.clone();
    set_by_name(&ctx.cm, &mut m, "subCommandParams.user.name", V::text(user_name));
    set_by_name(&ctx.cm, &mut m, "subCommandParams.user.displayName", V::text(display));
    if let Some(i) = icon {
        set_by_name(&ctx.cm, &mut m, "subCommandParams.user.icon", V::text(i));
    }
    crate::mon::c01::judge(rep, "C13", 0x0a, "CredentialManagement", &ctx.cm, &m, "names");
    // stand-alone entities: read the fields directly
    let user = V::M(vec![
        (V::text("id"), V::B(vec![1, 2, 3])),
        (V::text("icon"), V::text(icon.unwrap_or(""))),
        (V::text("name"), V::text(user_name)),
        (V::text("displayName"), V::text(display)),
    ]);
    let ub = encode(&user);
    let r = guard(|| {
        cbor_deserialize::<PublicKeyCredentialUserEntity>(&ub).map(|u| {
            (
                u.name.as_ref().map(|s| s.as_str().to_string()),
                u.display_name.as_ref().map(|s| s.as_str().to_string()),
                u.icon.as_ref().map(|s| s.as_str().to_string()),
                u.name.as_ref().map(|s| std::str::from_utf8(s.as_bytes()).is_ok()).unwrap_or(true)
                    && u.display_name.as_ref().map(|s| std::str::from_utf8(s.as_bytes()).is_ok()).unwrap_or(true),
            )
        })
    });
    let icon_exp = match icon.unwrap_or("") {
        i if i.len() <= 128 => Some(i.to_string()),
        _ => None,
    };
    match r {
        Ok(Ok((n, d, i, utf8ok))) => {
            let en = Some(ref_truncate(user_name, 64).to_string());
            let ed = Some(ref_truncate(display, 64).to_string());
            if n != en || d != ed || i != icon_exp || !utf8ok {
                rep.violation(
                    "C13|standalone-user|value",
                    format!(
                        "user entity decoded to name={:?} displayName={:?} icon={:?} (utf8 ok: {}), expected {:?} {:?} {:?}",
                        n, d, i, utf8ok, en, ed, icon_exp
                    ),
                    &ub,
                );
            }
            for x in [&n, &d].into_iter().flatten() {
                if x.len() > 64 {
                    rep.violation("C13|standalone-user|longer-than-64", format!("{} bytes", x.len()), &ub);
                }
            }
        }
        Ok(Err(e)) => rep.violation(
            "C13|standalone-user|rejected",
            format!("valid UTF-8 names/icon rejected: {:?}", e),
            &ub,
        ),
        Err(p) => rep.violation(&format!("C13|standalone-user|panic|{}", panic_site(&p)), p, &ub),
    }
    let rp = V::M(vec![
        (V::text("id"), V::text("example.com")),
        (V::text("name"), V::text(rp_name)),
        (V::text(if rp_name.len() % 2 == 0 { "icon" } else { "url" }), V::text(rp_icon.unwrap_or("x"))),
    ]);
    let rb = encode(&rp);
    let r = guard(|| cbor_deserialize::<PublicKeyCredentialRpEntity>(&rb).map(|r| (r.name.as_ref().map(|s| s.as_str().to_string()), r.icon.is_some())));
    match r {
        Ok(Ok((n, icon_seen))) => {
            let en = Some(ref_truncate(rp_name, 64).to_string());
            if n != en || !icon_seen {
                rep.violation(
                    "C13|standalone-rp|value",
                    format!("rp entity decoded to name={:?} icon-present={}, expected {:?} true", n, icon_seen, en),
                    &rb,
                );
            }
        }
        Ok(Err(e)) => rep.violation("C13|standalone-rp|rejected", format!("valid rp entity rejected: {:?}", e), &rb),
        Err(p) => rep.violation(&format!("C13|standalone-rp|panic|{}", panic_site(&p)), p, &rb),
    }
}

pub fn run(rep: &mut Rep) {
    let seed = rep.seed;
    let mc = schema::make_credential();
    let cm = schema::credential_management();
    let mut rng0 = Rng::derive(seed, "c13-base", 0);
    let mut g = G::new(&mut rng0);
    g.top_mask = Some(u64::MAX);
    g.nested = Nested::All;
    g.small = true;
    let mc_base = gen_message(&mc, &mut g);
    let mut cm_base = gen_message(&cm, &mut g);
    set_by_name(&cm, &mut cm_base, "subCommand", V::U(7));
    let ctx = Ctx { mc, cm, mc_base, cm_base };

    let mut comps = Vec::new();
    compositions(8, &mut Vec::new(), &mut comps);
    rep.count("compositions_of_8", if rep.shard == 0 { comps.len() as u64 } else { 0 });
    let mut case = 0u64;
    // (a) every width pattern in the bytes 60..68, 4 phase shifts, several total lengths
    let totals: &[usize] = if rep.thorough() { &[0, 69, 72, 80, 128, 129, 200, 300] } else { &[0, 70, 130] };
    for (ci, pat) in comps.iter().enumerate() {
        for phase in 0..4usize {
            for &total in totals {
                for fixed in [true, false] {
                    case += 1;
                    if !rep.mine(case) {
                        continue;
                    }
                    let mut rng = Rng::derive(seed, "c13a", case);
                    let start = 60 - phase;
                    let a = pattern_string(&mut rng, start, pat, total, fixed);
                    let b = pattern_string(&mut rng, start, &comps[(ci + 37) % comps.len()], total, fixed);
                    let c = pattern_string(&mut rng, start, &comps[(ci + 71) % comps.len()], total, fixed);
                    if !rep.begin("width-patterns") {
                        continue;
                    }
                    rep.input_hash(crate::rng::hash_bytes(a.as_bytes()));
                    rep.sample(|| format!("pattern {:?} phase {} total {} -> name {:?}", pat, phase, a.len(), a));
                    judge_names(rep, &ctx, &a, &b, &c, None, None);
                }
            }
        }
    }
    // (b) all lengths 0..=300 with homogeneous widths, names and icons
    for len in 0..=300usize {
        for w in 1..=4usize {
            for lead in 0..w {
                case += 1;
                if !rep.mine(case) {
                    continue;
                }
                let mut rng = Rng::derive(seed, "c13b", case);
                let mut s = String::new();
                for _ in 0..lead {
                    s.push('x');
                }
                while s.len() + w <= len {
                    s.push(char_of_width(&mut rng, w, len % 2 == 0));
                }
                while s.len() < len {
                    s.push('y');
                }
                if !rep.begin("homogeneous-lengths") {
                    continue;
                }
                rep.input_hash(crate::rng::hash_bytes(s.as_bytes()));
                rep.count_max("max_name_len", s.len() as u64);
                let icon = s.clone();
                judge_names(rep, &ctx, &s, &s, &s, Some(&icon), Some(&icon));
            }
        }
    }
    // (b2) "of any length": names of 64 KiB and more (16-bit arithmetic on the length), as single
    //      members of a MakeCredential message and stand-alone
    for &len in &[65534usize, 65535, 65536, 65537, 65540, 65599, 65600, 65601, 70000, 131072, 131100, 200000] {
        for w in [1usize, 2, 3, 4] {
            case += 1;
            if !rep.mine(case) {
                continue;
            }
            let mut rng = Rng::derive(seed, "c13-huge", case);
            let mut s = String::with_capacity(len + 4);
            for _ in 0..(case % 4) {
                s.push('x');
            }
            let ch = char_of_width(&mut rng, w, true);
            while s.len() + w <= len {
                s.push(ch);
            }
            while s.len() < len {
                s.push('y');
            }
            if !rep.begin("huge-names") {
                continue;
            }
            rep.count_max("max_name_len", s.len() as u64);
            rep.input_hash(crate::rng::hash_bytes(s.as_bytes()));
            let short = "short";
            match case % 3 {
                0 => judge_names(rep, &ctx, &s, short, short, None, None),
                1 => judge_names(rep, &ctx, short, &s, short, None, None),
                _ => judge_names(rep, &ctx, short, short, &s, None, None),
            }
        }
    }
    // (c) random Unicode text
    let n = rep.n(3000, 300_000);
    for _ in 0..n * rep.nshards {
        case += 1;
        if !rep.mine(case) {
            continue;
        }
        let mut rng = Rng::derive(seed, "c13c", case);
        let l1 = rng.usize(140);
        let l2 = 58 + rng.usize(14);
        let l3 = rng.usize(310);
        // random Unicode, and texts built from identifiers / URLs / BOM-prefixed names
        let pick = |rng: &mut Rng, l: usize| -> String {
            match crate::schema::gen_text(rng, l) {
                V::T(b) => String::from_utf8(b).unwrap_or_default(),
                _ => String::new(),
            }
        };
        let a = pick(&mut rng, l1);
        let b = pick(&mut rng, l2);
        let c = pick(&mut rng, l3);
        let il = *rng.pick(&[0usize, 1, 126, 127, 128, 129, 130, 131, 200, 300]);
        let icon = pick(&mut rng, il);
        if !rep.begin("random-unicode") {
            continue;
        }
        rep.input_hash(crate::rng::hash_bytes(c.as_bytes()) ^ crate::rng::hash_bytes(b.as_bytes()));
        judge_names(rep, &ctx, &a, &b, &c, Some(&icon), Some(&c));
    }
    // (d) ill-formed UTF-8 at every position 0..=70 of a name / icon: must be rejected
    let bads = crate::mutate::bad_utf8_samples();
    for pos in 0..=70usize {
        for (bi, bad) in bads.iter().enumerate() {
            for field in ["rp.name", "user.name", "user.displayName", "user.icon", "rp.icon", "rp.id"] {
                case += 1;
                if !rep.mine(case) {
                    continue;
                }
                let mut rng = Rng::derive(seed, "c13d", case);
                let base = rng.ascii(70);
                let mut t = base.as_bytes()[..pos].to_vec();
                t.extend_from_slice(bad);
                t.extend_from_slice(&base.as_bytes()[pos..]);
                if std::str::from_utf8(&t).is_ok() {
                    continue;
                }
                let mut m = ctx.mc_base.clone();
                set_by_name(&ctx.mc, &mut m, field, V::T(t));
                let mut bytes = vec![0x01];
                bytes.extend_from_slice(&encode(&m));
                if !rep.begin("ill-formed-utf8") {
                    continue;
                }
                rep.input(&bytes, true);
                match decode(&bytes) {
                    Decoded::Err(e) => rep.count(&format!("ill-formed-status/{}", status_name(e)), 1),
                    Decoded::Ok(..) => rep.violation(
                        &format!("C13|ill-formed-utf8-accepted|{}", field),
                        format!("{} holding ill-formed UTF-8 (sample {} at position {}) was accepted", field, bi, pos),
                        &bytes,
                    ),
                    Decoded::Panic(p) => rep.violation(
                        &format!("C13|panic|{}", panic_site(&p)),
                        format!("{} holding ill-formed UTF-8: {}", field, p),
                        &bytes,
                    ),
                }
            }
        }
    }
}
