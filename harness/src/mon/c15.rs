//! C15 — encoding then decoding (and decoding then encoding) is the identity.
//!
//! Oracle: equality only.  Canonical input bytes come from the model encoder over each type's
//! lossless domain; values come both from construction through the public API and from decoding.

use crate::cbor::{canonicalize, encode, hex, V};
use crate::report::{guard, panic_site, Rep};
use crate::resp::{self, Ctl};
use crate::rng::Rng;
use crate::schema::{self, Nested, G, S};
use ctap_types::ctap2::{self, client_pin, credential_management, get_assertion, get_info, large_blobs, make_credential};
use ctap_types::serde::{cbor_deserialize, cbor_serialize};
use ctap_types::webauthn::*;

pub enum Rt {
    Rejected(String),
    SerErr(String),
    Done { reencoded: Vec<u8>, redecoded_equal: Result<bool, String> },
}

macro_rules! rt_bytes {
    ($t:ty, $b:expr) => {{
        let b: &[u8] = $b;
        guard(|| match cbor_deserialize::<$t>(b) {
            Err(e) => Rt::Rejected(format!("{:?}", e)),
            Ok(v) => {
                let mut buf = vec![0u8; b.len() + 256];
                match cbor_serialize(&v, &mut buf) {
                    Err(e) => Rt::SerErr(format!("{:?}", e)),
                    Ok(out) => {
                        let out = out.to_vec();
                        let again = cbor_deserialize::<$t>(&out).map(|v2| v2 == v).map_err(|e| format!("{:?}", e));
                        Rt::Done { reencoded: out, redecoded_equal: again }
                    }
                }
            }
        })
    }};
}

fn judge_rt(rep: &mut Rep, name: &str, bytes: &[u8], r: Result<Rt, String>) {
    rep.input(bytes, bytes.len() > 1);
    rep.sample(|| format!("{} {}", name, hex(&bytes[..bytes.len().min(100)])));
    match r {
        Ok(Rt::Done { reencoded, redecoded_equal }) => {
            if reencoded != bytes {
                let what = match (crate::cbor::parse_any(bytes), crate::cbor::parse_any(&reencoded)) {
                    (Ok((a, _)), Ok((b, _))) => crate::util::vdiff(&a, &b, "")
                        .map(|(p, w)| (crate::util::stable_path(&p), w))
                        .unwrap_or(("encoding".into(), "same content, different encoding".into())),
                    _ => ("unparseable".into(), String::new()),
                };
                rep.violation(
                    &format!("C15|{}|decode-encode-differs|{}", name, what.0),
                    format!("canonical bytes {} decode and re-encode to {} ({})", hex(&bytes[..bytes.len().min(300)]), hex(&reencoded[..reencoded.len().min(300)]), what.1),
                    bytes,
                );
            }
            match redecoded_equal {
                Ok(true) => {}
                Ok(false) => rep.violation(&format!("C15|{}|encode-decode-not-equal", name), "decode(encode(v)) != v".into(), bytes),
                Err(e) => rep.violation(
                    &format!("C15|{}|own-encoding-rejected", name),
                    format!("the type's own encoding {} is rejected by its decoder: {}", hex(&reencoded[..reencoded.len().min(300)]), e),
                    bytes,
                ),
            }
        }
        Ok(Rt::Rejected(e)) => rep.violation(
            &format!("C15|{}|canonical-bytes-rejected", name),
            format!("model-encoded canonical bytes {} rejected: {}", hex(&bytes[..bytes.len().min(300)]), e),
            bytes,
        ),
        Ok(Rt::SerErr(e)) => rep.violation(&format!("C15|{}|serialize-error", name), e, bytes),
        Err(p) => rep.violation(&format!("C15|{}|panic|{}", name, panic_site(&p)), p, bytes),
    }
}

macro_rules! rt_value {
    ($rep:expr, $name:expr, $t:ty, $v:expr, $model:expr) => {{
        let v: &$t = $v;
        let r = guard(|| {
            let mut buf = vec![0u8; 8192];
            match cbor_serialize(v, &mut buf) {
                Err(e) => Err(format!("serialize: {:?}", e)),
                Ok(out) => {
                    let out = out.to_vec();
                    match cbor_deserialize::<$t>(&out) {
                        Err(e) => Err(format!("own encoding {} rejected: {:?}", hex(&out[..out.len().min(200)]), e)),
                        Ok(v2) => Ok((out, v2 == *v)),
                    }
                }
            }
        });
        let model_bytes = encode($model);
        $rep.input(&model_bytes, true);
        match r {
            Ok(Ok((_, true))) => {}
            Ok(Ok((out, false))) => $rep.violation(&format!("C15|{}|encode-decode-not-equal", $name), format!("decode(encode(v)) != v; bytes {}", hex(&out[..out.len().min(300)])), &out),
            Ok(Err(e)) => $rep.violation(&format!("C15|{}|encode-decode-failed", $name), e, &model_bytes),
            Err(p) => $rep.violation(&format!("C15|{}|panic|{}", $name, panic_site(&p)), p, &model_bytes),
        }
        // and the other direction from the model's canonical bytes
        judge_rt($rep, $name, &model_bytes, rt_bytes!($t, &model_bytes));
    }};
}

/// decode -> encode -> decode for a type chosen by name (shared with the C16 transcripts)
pub fn rt_named(name: &str, b: &[u8]) -> Result<Rt, String> {
    match name {
        "client_pin::Request" => rt_bytes!(client_pin::Request, b),
        "credential_management::Request" => rt_bytes!(credential_management::Request, b),
        "large_blobs::Request" => rt_bytes!(large_blobs::Request, b),
        "SubcommandParameters" => rt_bytes!(credential_management::SubcommandParameters, b),
        "HmacSecretInput" => rt_bytes!(get_assertion::HmacSecretInput, b),
        "AuthenticatorOptions" => rt_bytes!(ctap2::AuthenticatorOptions, b),
        "make_credential::Extensions" => rt_bytes!(make_credential::Extensions, b),
        "get_assertion::ExtensionsInput" => rt_bytes!(get_assertion::ExtensionsInput, b),
        "get_assertion::ExtensionsOutput" => rt_bytes!(get_assertion::ExtensionsOutput, b),
        "PublicKeyCredentialRpEntity" => rt_bytes!(PublicKeyCredentialRpEntity, b),
        "PublicKeyCredentialUserEntity" => rt_bytes!(PublicKeyCredentialUserEntity, b),
        "PublicKeyCredentialDescriptorRef" => rt_bytes!(PublicKeyCredentialDescriptorRef, b),
        "PublicKeyCredentialDescriptor" => rt_bytes!(PublicKeyCredentialDescriptor, b),
        "PublicKeyCredentialParameters" => rt_bytes!(PublicKeyCredentialParameters, b),
        "FilteredPublicKeyCredentialParameters" => rt_bytes!(FilteredPublicKeyCredentialParameters, b),
        "EcdhEsHkdf256PublicKey" => rt_bytes!(cosey::EcdhEsHkdf256PublicKey, b),
        "get_info::Response" => rt_bytes!(get_info::Response, b),
        "client_pin::Response" => rt_bytes!(client_pin::Response, b),
        "large_blobs::Response" => rt_bytes!(large_blobs::Response, b),
        "CtapOptions" => rt_bytes!(get_info::CtapOptions, b),
        "cosey::PublicKey" => rt_bytes!(cosey::PublicKey, b),
        "Version" => rt_bytes!(get_info::Version, b),
        "Extension" => rt_bytes!(get_info::Extension, b),
        "Transport" => rt_bytes!(get_info::Transport, b),
        "AttestationStatementFormat" => rt_bytes!(ctap2::AttestationStatementFormat, b),
        "PinV1Subcommand" => rt_bytes!(client_pin::PinV1Subcommand, b),
        "Subcommand" => rt_bytes!(credential_management::Subcommand, b),
        "CredentialProtectionPolicy" => rt_bytes!(credential_management::CredentialProtectionPolicy, b),
        other => Err(format!("harness: unknown type name {}", other)),
    }
}

/// the bidirectional types whose canonical bytes come from the request-side tables
pub fn schema_table() -> Vec<(&'static str, S)> {
    vec![
        ("client_pin::Request", schema::client_pin()),
        ("credential_management::Request", schema::credential_management()),
        ("large_blobs::Request", schema::large_blobs()),
        ("SubcommandParameters", schema::cm_subcommand_params()),
        ("HmacSecretInput", schema::hmac_secret_input()),
        ("AuthenticatorOptions", schema::options()),
        ("make_credential::Extensions", schema::mc_extensions()),
        ("get_assertion::ExtensionsInput", schema::ga_extensions()),
        ("get_assertion::ExtensionsOutput", schema::ga_extensions_output()),
        ("PublicKeyCredentialRpEntity", schema::rp_entity()),
        ("PublicKeyCredentialUserEntity", schema::user_entity()),
        ("PublicKeyCredentialDescriptorRef", schema::descriptor_ref()),
        ("PublicKeyCredentialDescriptor", schema::descriptor_owned()),
        ("PublicKeyCredentialParameters", schema::param_entry().clone()),
        ("FilteredPublicKeyCredentialParameters", S::Params),
        ("EcdhEsHkdf256PublicKey", S::CoseEcdh),
    ]
}

pub fn gen_lossless(s: &S, rng: &mut Rng, i: u64, k: usize) -> Vec<u8> {
    let mut g = G::new(rng);
    g.lossless = true;
    g.small = i % 2 == 0;
    match i % 4 {
        0 => {
            g.top_mask = Some(0);
            g.nested = Nested::OnlyRequired;
        }
        1 => {
            g.top_mask = Some(u64::MAX);
            g.nested = Nested::All;
        }
        2 if k <= 8 => {
            g.top_mask = Some(i / 4 % (1 << k));
        }
        _ => {}
    }
    let mut v = schema::gen(s, &mut g);
    canonicalize(&mut v);
    encode(&v)
}

pub fn run(rep: &mut Rep) {
    let seed = rep.seed;
    let mut case = 0u64;
    // ---- (A) types whose canonical bytes come from the request-side specification tables
    let table = schema_table();

    for (name, s) in &table {
        let k = schema::n_optional(s);
        let n = rep.n(1200, 1_200_000);
        for i in 0..n * rep.nshards {
            case += 1;
            if !rep.mine(case) {
                continue;
            }
            let mut rng = Rng::derive(seed, "c15a", case);
            let b = gen_lossless(s, &mut rng, i, k);
            if !rep.begin(&format!("from-bytes/{}", name)) {
                continue;
            }
            let r = rt_named(name, &b);
            judge_rt(rep, name, &b, r);
            for (dname, dr) in rt_dispatch(name, &b) {
                judge_rt(rep, dname, &b, dr);
            }
        }
    }
    // ---- (B) values constructed through the public API (and their model bytes)
    let n = rep.n(1500, 1_500_000);
    for which in 0..9u64 {
        for i in 0..n * rep.nshards {
            case += 1;
            if !rep.mine(case) {
                continue;
            }
            let mut rng = Rng::derive(seed, "c15b", case);
            let mask_src = rng.u64();
            let mut c = Ctl::new(&mut rng);
            c.small = i % 2 == 0;
            c.top_mask = match i % 4 {
                0 => Some(0),
                1 => Some(u64::MAX),
                2 => Some(1 << (i / 4 % 24)),
                _ => Some(mask_src),
            };
            c.nested = match i % 3 {
                0 => Some(true),
                1 => Some(false),
                _ => None,
            };
            let names = [
                "get_info::Response",
                "client_pin::Response",
                "large_blobs::Response",
                "CtapOptions",
                "Certifications",
                "PublicKeyCredentialUserEntity(constructed)",
                "PublicKeyCredentialDescriptor(constructed)",
                "cosey::PublicKey",
                "PublicKeyCredentialRpEntity(constructed)",
            ];
            let name = names[which as usize];
            if which == 4 && !cfg!(feature = "gif") {
                continue;
            }
            if !rep.begin(&format!("from-value/{}", name)) {
                continue;
            }
            match which {
                0 => {
                    let (v, m) = resp::gen_get_info(&mut c);
                    rt_value!(rep, name, get_info::Response, &v, &m);
                }
                1 => {
                    let (v, m) = resp::gen_client_pin(&mut c);
                    rt_value!(rep, name, client_pin::Response, &v, &m);
                }
                2 => {
                    let (v, m) = resp::gen_large_blobs(&mut c);
                    rt_value!(rep, name, large_blobs::Response, &v, &m);
                }
                3 => {
                    let (v, m) = resp::gen_ctap_options(&mut c);
                    rt_value!(rep, name, get_info::CtapOptions, &v, &m);
                }
                4 => {
                    #[cfg(feature = "gif")]
                    if let Some((v, m)) = resp::gen_certifications(&mut c) {
                        rt_value!(rep, name, get_info::Certifications, &v, &m);
                    }
                }
                5 => {
                    let (v, m) = resp::gen_user(&mut c);
                    rt_value!(rep, name, PublicKeyCredentialUserEntity, &v, &m);
                }
                6 => {
                    let (v, m) = resp::gen_descriptor(&mut c);
                    rt_value!(rep, name, PublicKeyCredentialDescriptor, &v, &m);
                }
                7 => {
                    let k = c.rng.below(4);
                    let (v, m) = resp::gen_cose(c.rng, k);
                    rt_value!(rep, name, cosey::PublicKey, &v, &m);
                }
                _ => {
                    // the rp icon is the stated exception: it is not re-emitted
                    let (mut v, m) = resp::gen_rp(&mut c);
                    v.icon = None;
                    rt_value!(rep, name, PublicKeyCredentialRpEntity, &v, &m);
                }
            }
        }
    }
    // ---- (C) string- and number-valued enumerations, every member, both directions
    if rep.shard == 0 {
        for (v, s) in resp::VERSIONS {
            if rep.begin("enum/Version") {
                rt_value!(rep, "Version", get_info::Version, &v, &V::text(s));
            }
        }
        for (v, s) in resp::EXTENSIONS {
            if rep.begin("enum/Extension") {
                rt_value!(rep, "Extension", get_info::Extension, &v, &V::text(s));
            }
        }
        for (v, s) in resp::TRANSPORTS {
            if rep.begin("enum/Transport") {
                rt_value!(rep, "Transport", get_info::Transport, &v, &V::text(s));
            }
        }
        for (v, s) in resp::FORMATS {
            if rep.begin("enum/AttestationStatementFormat") {
                rt_value!(rep, "AttestationStatementFormat", ctap2::AttestationStatementFormat, &v, &V::text(s));
            }
        }
        for n in [1u64, 2, 3, 4, 5, 6, 7, 9] {
            if rep.begin("enum/PinV1Subcommand") {
                let b = encode(&V::U(n));
                judge_rt(rep, "PinV1Subcommand", &b, rt_bytes!(client_pin::PinV1Subcommand, &b));
            }
        }
        for n in 1u64..=7 {
            if rep.begin("enum/Subcommand") {
                let b = encode(&V::U(n));
                judge_rt(rep, "Subcommand", &b, rt_bytes!(credential_management::Subcommand, &b));
            }
        }
        for n in 1u64..=3 {
            if rep.begin("enum/CredentialProtectionPolicy") {
                let b = encode(&V::U(n));
                judge_rt(rep, "CredentialProtectionPolicy", &b, rt_bytes!(credential_management::CredentialProtectionPolicy, &b));
            }
        }
    }
}

/// The three request types are decoded in practice by `Request::deserialize`: the same round trip
/// through the dispatcher (command byte prepended; 0x41 as well as 0x0A for CredentialManagement).
macro_rules! rt_via_dispatcher {
    ($cmd:expr, $variant:path, $t:ty, $b:expr) => {{
        let b: &[u8] = $b;
        let cmd: u8 = $cmd;
        guard(|| {
            let mut msg = vec![cmd];
            msg.extend_from_slice(b);
            let outcome = match ctap2::Request::deserialize(&msg) {
                Err(e) => Rt::Rejected(format!("Request::deserialize: {:?}", e)),
                Ok($variant(v)) => {
                    // the dispatcher must agree with the type's own decoder
                    let direct = cbor_deserialize::<$t>(b).map(|d| d == v).map_err(|e| format!("{:?}", e));
                    if direct != Ok(true) {
                        return Rt::Rejected(format!("Request::deserialize and the type's own decoder disagree: {:?}", direct));
                    }
                    let mut buf = vec![0u8; b.len() + 256];
                    match cbor_serialize(&v, &mut buf) {
                        Err(e) => Rt::SerErr(format!("{:?}", e)),
                        Ok(out) => {
                            let out = out.to_vec();
                            let mut msg2 = vec![cmd];
                            msg2.extend_from_slice(&out);
                            let again = match ctap2::Request::deserialize(&msg2) {
                                Ok($variant(v2)) => Ok(v2 == v),
                                Ok(_) => Err("decoded as another request".to_string()),
                                Err(e) => Err(format!("{:?}", e)),
                            };
                            Rt::Done { reencoded: out, redecoded_equal: again }
                        }
                    }
                }
                Ok(_) => Rt::Rejected("decoded as another request".into()),
            };
            outcome
        })
    }};
}

pub fn rt_dispatch(name: &str, b: &[u8]) -> Vec<(&'static str, Result<Rt, String>)> {
    match name {
        "client_pin::Request" => vec![(
            "client_pin::Request(via Request::deserialize)",
            rt_via_dispatcher!(0x06, ctap2::Request::ClientPin, client_pin::Request, b),
        )],
        "credential_management::Request" => vec![
            (
                "credential_management::Request(via Request::deserialize)",
                rt_via_dispatcher!(0x0a, ctap2::Request::CredentialManagement, credential_management::Request, b),
            ),
            (
                "credential_management::Request(via Request::deserialize 0x41)",
                rt_via_dispatcher!(0x41, ctap2::Request::CredentialManagement, credential_management::Request, b),
            ),
        ],
        "large_blobs::Request" => vec![(
            "large_blobs::Request(via Request::deserialize)",
            rt_via_dispatcher!(0x0c, ctap2::Request::LargeBlobs, large_blobs::Request, b),
        )],
        _ => vec![],
    }
}
