//! C06 — unknown options, extensions and entity members are skipped, not fatal.
//!
//! Oracle: decode(request with an unknown text-keyed member inserted) == decode(request), both
//! accepted, and the base request also equals the model's normalisation (so "both wrong the same
//! way" is still seen).

use crate::cbor::{encode, V};
use crate::report::Rep;
use crate::rng::Rng;
use crate::schema::{self, at_mut, gen_message, nodes, Nested, G, S};
use crate::util::{decode, stable_path, status_name, Decoded};
use ctap_types::serde::cbor_deserialize;

const REAL_WORLD: [&str; 14] = [
    "transports",
    "credBlob",
    "minPinLength",
    "credProps",
    "hmac-secret-mc",
    "prf",
    "largeBlob",
    "uvm",
    "thirdPartyPayment",
    "credentialProtectionPolicy",
    "appid",
    "getCredBlob",
    "pinComplexityPolicy",
    "icon2",
];

pub fn gen_unknown_key(rng: &mut Rng, known: &[String]) -> V {
    loop {
        let k: String = match rng.below(12) {
            // near misses of the host's own member names (case, padding, one character more or less)
            // and names that collide with them under common hand-written string hashes
            10 | 11 if !known.is_empty() => {
                let w = rng.pick(known).clone();
                crate::schema::identifier_variant(rng, &w)
            }
            0 => String::new(),
            1 => rng.ascii(1),
            2 => rng.ascii(23),
            3 => rng.ascii(24),
            4 => rng.ascii(255),
            5 => rng.ascii(256),
            6 => {
                let n = rng.usize(40);
                rng.text_bytes(n)
            }
            7 if !crate::schema::literals().texts.is_empty() => rng.pick(&crate::schema::literals().texts).clone(),
            _ => (*rng.pick(&REAL_WORLD)).to_string(),
        };
        if !known.iter().any(|x| *x == k) {
            return V::text(&k);
        }
    }
}

fn gen_uint_any_width(rng: &mut Rng) -> u64 {
    match rng.below(7) {
        0 => rng.below(24),
        1 => rng.range(24, 255),
        2 => rng.range(256, 65535),
        3 => rng.range(65536, 0xffff_ffff),
        4 => rng.range(0x1_0000_0000, u64::MAX - 1),
        5 => *rng.pick(&[0u64, 23, 24, 255, 256, 65535, 65536, 0xffff_ffff, 0x1_0000_0000, u64::MAX]),
        _ => rng.u64(),
    }
}

/// A value from the full definite-length CBOR grammar.
pub fn gen_unknown_value(rng: &mut Rng, depth: usize, budget: &mut usize) -> V {
    let leaf_only = depth == 0 || *budget < 8;
    let pick = if leaf_only { rng.below(9) } else { rng.below(13) };
    *budget = budget.saturating_sub(10);
    match pick {
        0 => V::U(gen_uint_any_width(rng)),
        1 => V::N(gen_uint_any_width(rng)),
        2 => {
            let n = (*rng.pick(&[0usize, 1, 23, 24, 100, 255, 256, 300])).min(*budget);
            *budget -= n;
            V::B(rng.bytes(n))
        }
        3 => {
            let n = (*rng.pick(&[0usize, 1, 23, 24, 100, 255, 256, 300])).min(*budget);
            *budget -= n;
            V::text(&rng.text_bytes(n))
        }
        4 => V::Bool(rng.bool()),
        5 => if rng.bool() { V::Null } else { V::Undef },
        6 => {
            let x = if rng.bool() { rng.below(20) as u8 } else { rng.range(32, 255) as u8 };
            V::Simple(x)
        }
        7 => match rng.below(3) {
            0 => V::F16(rng.u64() as u16),
            1 => V::F32(rng.u64() as u32),
            _ => V::F64(rng.u64()),
        },
        8 => V::Tag(gen_uint_any_width(rng), Box::new(V::U(rng.below(100)))),
        9 | 10 => {
            let n = (*rng.pick(&[0usize, 1, 2, 3, 5, 23, 24, 30, 255, 256, 257])).min(*budget / 4 + 1);
            V::A((0..n).map(|_| gen_unknown_value(rng, depth - 1, budget)).collect())
        }
        11 => {
            let n = (*rng.pick(&[0usize, 1, 2, 3, 5, 23, 24])).min(*budget / 8 + 1);
            V::M((0..n)
                .map(|_| {
                    let k = gen_unknown_value(rng, 0, budget);
                    (k, gen_unknown_value(rng, depth - 1, budget))
                })
                .collect())
        }
        _ => V::Tag(gen_uint_any_width(rng), Box::new(gen_unknown_value(rng, depth - 1, budget))),
    }
}

/// Dedicated chains: nesting of one constructor to exactly `depth`.
pub fn chain(kind: u64, depth: usize, leaf: V) -> V {
    let mut v = leaf;
    for d in 0..depth {
        let k = if kind == 3 { (d % 3) as u64 } else { kind };
        v = match k {
            0 => V::A(vec![v]),
            1 => V::M(vec![(V::U(d as u64 % 24), v)]),
            _ => V::Tag(d as u64, Box::new(v)),
        };
    }
    v
}

fn known_keys(s: &S) -> Vec<String> {
    let mut out = Vec::new();
    if let S::Map(ms) = s {
        for m in &ms.members {
            if let Some(k) = m.key.as_str() {
                out.push(k.to_string());
            }
            for a in &m.aliases {
                out.push(a.to_string());
            }
        }
    }
    out
}

fn body_len(v: &V) -> usize {
    encode(v).len()
}

pub fn run(rep: &mut Rep) {
    let seed = rep.seed;
    let cmds: Vec<(u8, &'static str, S)> = schema::commands()
        .into_iter()
        .filter(|c| matches!(c.0, 0x01 | 0x02 | 0x0a))
        .collect();
    let mut case = 0u64;
    for (cmd, name, s) in &cmds {
        let n = rep.n(64, 20_000);
        for i in 0..n * rep.nshards {
            case += 1;
            if !rep.mine(case) {
                continue;
            }
            let mut rng = Rng::derive(seed, "c06", case);
            let mut g = G::new(&mut rng);
            g.top_mask = Some(u64::MAX);
            g.nested = if i % 2 == 0 { Nested::All } else { Nested::Random };
            g.small = true;
            let v = gen_message(s, &mut g);
            let mut base = vec![*cmd];
            base.extend_from_slice(&encode(&v));
            let dbase = decode(&base);
            if !matches!(dbase, Decoded::Ok(..)) {
                rep.count("seed_not_accepted(judged under C01)", 1);
                continue;
            }
            if rep.begin(&format!("{}/base-faithful", name)) {
                crate::mon::c01::judge(rep, "C06", *cmd, name, s, &v, "base");
            }
            let ns = nodes(s, &v);
            for node in &ns {
                let S::Map(ms) = node.s else { continue };
                if !ms.extensible {
                    continue;
                }
                let host = ms.kind;
                let known = known_keys(node.s);
                let entries = crate::schema::at(&v, &node.path)
                    .and_then(|x| x.as_map())
                    .map(|m| m.len())
                    .unwrap_or(0);
                for pos in 0..=entries {
                    // one unknown member at this position; several values per position
                    let variants = if rep.light { 1 } else { 3 };
                    for var in 0..variants {
                        let room = schema::MAX_MSG.saturating_sub(base.len() + 300);
                        let mut budget = match rng.below(8) {
                            0 => room,
                            1 => room.min(2000),
                            _ => room.min(300),
                        };
                        let key = gen_unknown_key(&mut rng, &known);
                        let val = match (var + i as usize) % 6 {
                            0 => chain(rng.below(4), 16, V::U(rng.below(1000))),
                            1 if budget > 3000 => chain(rng.below(4), (budget - 600) / 2, V::Null),
                            2 if budget > 3000 => {
                                if rng.bool() {
                                    V::B(rng.bytes(budget - 600))
                                } else {
                                    V::text(&rng.ascii(budget - 600))
                                }
                            }
                            _ => gen_unknown_value(&mut rng, 16, &mut budget),
                        };
                        let mut m = v.clone();
                        let mut extra = 1;
                        if let Some(V::M(e)) = at_mut(&mut m, &node.path) {
                            e.insert(pos, (key.clone(), val.clone()));
                            // sometimes several unknown members, occasionally hundreds of them
                            if rng.chance(1, 4) {
                                let many = if rng.chance(1, 3) { *rng.pick(&[3u64, 4, 5, 6, 7, 8, 9, 15, 16, 17, 23, 24, 254, 255, 256, 300]) } else { rng.range(1, 3) };
                                for j in 0..many {
                                    // short distinct keys when there are many of them (size budget)
                                    let k2 = if many > 3 {
                                        let mut k = format!("u{}", j);
                                        if j % 5 == 0 {
                                            k = (*rng.pick(&REAL_WORLD)).to_string();
                                        }
                                        if known.iter().any(|x| *x == k) {
                                            continue;
                                        }
                                        V::text(&k)
                                    } else {
                                        gen_unknown_key(&mut rng, &known)
                                    };
                                    if e.iter().any(|(k, _)| *k == k2) {
                                        continue;
                                    }
                                    let p2 = rng.usize(e.len() + 1);
                                    let mut b2 = if many > 3 { 4 } else { 60 };
                                    let d2 = if many > 3 { 0 } else { 4 };
                                    e.insert(p2, (k2, gen_unknown_value(&mut rng, d2, &mut b2)));
                                    extra += 1;
                                }
                            }
                        }
                        if body_len(&m) + 1 > schema::MAX_MSG {
                            continue;
                        }
                        let mut with = vec![*cmd];
                        with.extend_from_slice(&encode(&m));
                        if !rep.begin(&format!("{}/{}/insert", name, host)) {
                            continue;
                        }
                        rep.input(&with, true);
                        rep.count(&format!("positions/{}", host), 1);
                        rep.count(&format!("value-class/{}", crate::schema::major_class(&val)), 1);
                        rep.count_max("max_unknown_value_bytes", encode(&val).len() as u64);
                        let dw = decode(&with);
                        rep.sample(|| {
                            format!(
                                "{} host={} pos={}/{} key={} value={} (+{} more)",
                                name,
                                stable_path(&node.name),
                                pos,
                                entries,
                                key.diag(),
                                &val.diag().chars().take(100).collect::<String>(),
                                extra - 1
                            )
                        });
                        if dw != dbase {
                            let got = match &dw {
                                Decoded::Err(e) => format!("rejected-{}", status_name(*e)),
                                Decoded::Ok(..) => "different-value".to_string(),
                                Decoded::Panic(p) => format!("panic@{}", crate::report::panic_site(p)),
                            };
                            rep.violation(
                                &format!("C06|{}|{}|{}", name, host, got),
                                format!(
                                    "unknown member {}: {} inserted at position {} of {} changed the result: without {:?} / with {:?}",
                                    key.diag(),
                                    val.diag().chars().take(200).collect::<String>(),
                                    pos,
                                    stable_path(&node.name),
                                    short(&dbase),
                                    short(&dw)
                                ),
                                &with,
                            );
                        }
                    }
                }
            }
        }
    }
    standalone(rep);
}

fn short(d: &Decoded) -> String {
    let s = format!("{:?}", d);
    s.chars().take(300).collect()
}

/// Stand-alone decoding of the host types: equality of the Rust values themselves.
fn standalone(rep: &mut Rep) {
    use ctap_types::ctap2::{get_assertion, make_credential, AuthenticatorOptions};
    use ctap_types::webauthn::*;
    let seed = rep.seed;
    let hosts: Vec<(&'static str, S)> = vec![
        ("rp", schema::rp_entity()),
        ("user", schema::user_entity()),
        ("descriptor", schema::descriptor_ref()),
        ("param", schema::param_entry().clone()),
        ("options", schema::options()),
        ("mc_extensions", schema::mc_extensions()),
        ("ga_extensions", schema::ga_extensions()),
    ];
    let n = rep.n(400, 40_000);
    let mut case = 0u64;
    for (host, s) in &hosts {
        let known = known_keys(s);
        for _ in 0..n * rep.nshards {
            case += 1;
            if !rep.mine(case) {
                continue;
            }
            let mut rng = Rng::derive(seed, "c06s", case);
            let mut g = G::new(&mut rng);
            g.small = true;
            g.depth = 1;
            let mut v = crate::schema::gen(s, &mut g);
            crate::cbor::canonicalize(&mut v);
            let base = encode(&v);
            let mut m = v.clone();
            let key = gen_unknown_key(&mut rng, &known);
            let mut budget = 400;
            let val = gen_unknown_value(&mut rng, 16, &mut budget);
            if let V::M(e) = &mut m {
                let pos = rng.usize(e.len() + 1);
                e.insert(pos, (key, val));
            }
            let with = encode(&m);
            if !rep.begin(&format!("standalone/{}", host)) {
                continue;
            }
            rep.input(&with, true);
            macro_rules! cmp {
                ($t:ty) => {{
                    let a = crate::report::guard(|| cbor_deserialize::<$t>(&base).map_err(|e| format!("{:?}", e)));
                    let b = crate::report::guard(|| cbor_deserialize::<$t>(&with).map_err(|e| format!("{:?}", e)));
                    match (&a, &b) {
                        (Ok(Ok(x)), Ok(Ok(y))) if x == y => None,
                        (Ok(Err(_)), _) => {
                            // the base value itself is not accepted stand-alone: not this property's concern
                            Some("base-rejected".to_string())
                        }
                        _ => Some(format!("without {:?} / with {:?}", a.as_ref().map(|r| r.as_ref().map(|_| "Ok")), b)),
                    }
                }};
            }
            let r = match *host {
                "rp" => cmp!(PublicKeyCredentialRpEntity),
                "user" => cmp!(PublicKeyCredentialUserEntity),
                "descriptor" => cmp!(PublicKeyCredentialDescriptorRef),
                "param" => cmp!(PublicKeyCredentialParameters),
                "options" => cmp!(AuthenticatorOptions),
                "mc_extensions" => cmp!(make_credential::Extensions),
                _ => cmp!(get_assertion::ExtensionsInput),
            };
            match r {
                None => {}
                Some(x) if x == "base-rejected" => rep.count("standalone_base_rejected", 1),
                Some(x) => rep.violation(
                    &format!("C06|standalone|{}", host),
                    format!("stand-alone {} with an unknown member decodes differently: {}", host, x.chars().take(400).collect::<String>()),
                    &with,
                ),
            }
        }
    }
}
