pub mod c01;
pub mod c04;
pub mod c05;
pub mod c06;
pub mod c12;
pub mod c13;
pub mod c14;
