//! Library part of the harness (`vh`): model, generators, monitors.  The binary (`main.rs`) is the
//! sharded runner; the fuzz targets under /verif/fuzz use the oracles in `fuzz` directly.
#![allow(dead_code)]

pub mod cbor;
#[cfg(feature = "dense")]
pub mod dispatch;
pub mod fuzz;
pub mod mock;
pub mod mon;
pub mod mutate;
pub mod project;
pub mod report;
pub mod resp;
pub mod rng;
pub mod schema;
pub mod util;
