//! Shared helpers for the monitors: calling the decoder under guard, structural diff of model
//! values, feature-configuration name.

use crate::cbor::V;
use crate::project;
use crate::report::guard;
use ctap_types::ctap2;

/// CPU seconds (user + system) consumed by this process so far, from /proc (the shard processes
/// are single-threaded, so this is the monitor thread's CPU time).
pub fn cpu_seconds() -> f64 {
    let Ok(s) = std::fs::read_to_string("/proc/self/stat") else { return 0.0 };
    // fields after the parenthesised command name: state is field 3, utime 14, stime 15
    let Some(rest) = s.rsplit(')').next() else { return 0.0 };
    let f: Vec<&str> = rest.split_whitespace().collect();
    if f.len() < 13 {
        return 0.0;
    }
    let ticks: f64 = f[11].parse::<f64>().unwrap_or(0.0) + f[12].parse::<f64>().unwrap_or(0.0);
    ticks / 100.0
}

pub fn cfg_name() -> String {
    let mut s = format!(
        "f{}{}{}",
        cfg!(feature = "gif") as u8,
        cfg!(feature = "lb") as u8,
        cfg!(feature = "tpp") as u8
    );
    if cfg!(feature = "arb") {
        s.push_str("sa");
    }
    s
}

#[derive(Clone, Debug, PartialEq)]
pub enum Decoded {
    Ok(&'static str, V),
    Err(u8),
    Panic(String),
}

/// Decode through the public entry point and project the result.
pub fn decode(bytes: &[u8]) -> Decoded {
    match guard(|| ctap2::Request::deserialize(bytes).map(|r| project::p_request(&r))) {
        Ok(Ok((name, v))) => Decoded::Ok(name, v),
        Ok(Err(e)) => Decoded::Err(e as u8),
        Err(p) => Decoded::Panic(p),
    }
}

/// Decode, project, and check the structural invariants every accepted request must satisfy:
/// every text field re-validated with `from_utf8` and within its capacity.
pub fn decode_checked(bytes: &[u8]) -> (Decoded, Vec<String>) {
    let r = guard(|| {
        ctap2::Request::deserialize(bytes).map(|r| {
            let mut problems = Vec::new();
            for (name, b, cap) in project::text_fields(&r) {
                if std::str::from_utf8(&b).is_err() {
                    problems.push(format!("text field {} is not valid UTF-8: {}", name, crate::cbor::hex(&b)));
                }
                if b.len() > cap {
                    problems.push(format!("text field {} holds {} bytes, capacity {}", name, b.len(), cap));
                }
            }
            // a decoded request can be cloned, compared and formatted without surprises
            let c = r.clone();
            if c != r {
                problems.push("clone of the decoded request is not equal to it".to_string());
            }
            if !cfg!(miri) && format!("{:?}", c) != format!("{:?}", r) {
                problems.push("clone of the decoded request formats differently".to_string());
            }
            let lo = bytes.as_ptr() as usize;
            let hi = lo + bytes.len();
            let mut inside = 0usize;
            let mut outside = 0usize;
            for (p, l) in project::borrowed_ranges(&r) {
                if l == 0 || (p >= lo && p + l <= hi) {
                    inside += 1;
                } else {
                    outside += 1;
                }
            }
            (project::p_request(&r), problems, inside, outside)
        })
    });
    match r {
        Ok(Ok(((name, v), problems, _inside, outside))) => {
            let mut problems = problems;
            if outside > 0 {
                // observation only: the property does not demand zero-copy
                problems.push(format!("OBS borrowed-field-outside-input x{}", outside));
            }
            (Decoded::Ok(name, v), problems)
        }
        Ok(Err(e)) => (Decoded::Err(e as u8), vec![]),
        Err(p) => (Decoded::Panic(p), vec![]),
    }
}

/// First structural difference between expected and observed: (path, description).
pub fn vdiff(exp: &V, got: &V, path: &str) -> Option<(String, String)> {
    if exp == got {
        return None;
    }
    match (exp, got) {
        (V::M(a), V::M(b)) => {
            for (k, x) in a {
                let p = format!("{}/{}", path, k.diag());
                match b.iter().find(|(k2, _)| k2 == k) {
                    None => return Some((p, format!("expected {} but member absent", x.diag()))),
                    Some((_, y)) => {
                        if let Some(d) = vdiff(x, y, &p) {
                            return Some(d);
                        }
                    }
                }
            }
            for (k, y) in b {
                if !a.iter().any(|(k2, _)| k2 == k) {
                    return Some((
                        format!("{}/{}", path, k.diag()),
                        format!("expected absent but got {}", y.diag()),
                    ));
                }
            }
            Some((path.to_string(), "same members, different order or duplicates".into()))
        }
        (V::A(a), V::A(b)) => {
            if a.len() != b.len() {
                return Some((
                    path.to_string(),
                    format!("expected {} elements, got {}: {} vs {}", a.len(), b.len(), exp.diag(), got.diag()),
                ));
            }
            for (i, (x, y)) in a.iter().zip(b.iter()).enumerate() {
                if let Some(d) = vdiff(x, y, &format!("{}[{}]", path, i)) {
                    return Some(d);
                }
            }
            None
        }
        _ => Some((
            path.to_string(),
            format!("expected {} got {}", exp.diag(), got.diag()),
        )),
    }
}

/// Strip array indices from a diff path so that signatures are stable: "/5[3]/\"id\"" -> "/5[]/\"id\""
pub fn stable_path(p: &str) -> String {
    let mut out = String::new();
    let mut in_br = false;
    for c in p.chars() {
        match c {
            '[' => {
                in_br = true;
                out.push('[');
            }
            ']' => {
                in_br = false;
                out.push(']');
            }
            c if in_br && c.is_ascii_digit() => {}
            c => out.push(c),
        }
    }
    out
}

pub fn status_name(b: u8) -> String {
    match b {
        0x01 => "InvalidCommand(0x01)".into(),
        0x12 => "InvalidCbor(0x12)".into(),
        0x14 => "MissingParameter(0x14)".into(),
        x => format!("0x{:02x}", x),
    }
}
