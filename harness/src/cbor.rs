//! Independent CBOR model: value AST, encoder (canonical heads; map order as given), a generic
//! well-formedness parser and a strict CTAP2-canonical validator.  Written from RFC 8949 and the
//! CTAP2 "canonical CBOR encoding form" text, never looking at cbor-smol.

use std::fmt::Write as _;

#[derive(Clone, Debug, PartialEq, Eq, Hash, PartialOrd, Ord)]
pub enum V {
    /// major 0
    U(u64),
    /// major 1: the value is -1 - n
    N(u64),
    /// major 2
    B(Vec<u8>),
    /// major 3 (bytes may be ill-formed UTF-8 on purpose)
    T(Vec<u8>),
    /// major 4
    A(Vec<V>),
    /// major 5; ordered, duplicates representable
    M(Vec<(V, V)>),
    /// major 6
    Tag(u64, Box<V>),
    Bool(bool),
    Null,
    Undef,
    /// other simple values (0..=19 one byte, 32..=255 two bytes)
    Simple(u8),
    F16(u16),
    F32(u32),
    F64(u64),
    /// pre-encoded bytes spliced in verbatim (fault injection)
    Raw(Vec<u8>),
}

impl V {
    pub fn int(i: i128) -> V {
        if i >= 0 {
            V::U(i as u64)
        } else {
            V::N((-1 - i) as u64)
        }
    }
    pub fn text(s: &str) -> V {
        V::T(s.as_bytes().to_vec())
    }
    pub fn bytes(b: &[u8]) -> V {
        V::B(b.to_vec())
    }
    pub fn as_int(&self) -> Option<i128> {
        match self {
            V::U(n) => Some(*n as i128),
            V::N(n) => Some(-1 - (*n as i128)),
            _ => None,
        }
    }
    pub fn as_map(&self) -> Option<&Vec<(V, V)>> {
        match self {
            V::M(m) => Some(m),
            _ => None,
        }
    }
    pub fn as_map_mut(&mut self) -> Option<&mut Vec<(V, V)>> {
        match self {
            V::M(m) => Some(m),
            _ => None,
        }
    }
    pub fn as_arr(&self) -> Option<&Vec<V>> {
        match self {
            V::A(a) => Some(a),
            _ => None,
        }
    }
    pub fn as_bytes(&self) -> Option<&[u8]> {
        match self {
            V::B(b) => Some(b),
            _ => None,
        }
    }
    pub fn as_text(&self) -> Option<&[u8]> {
        match self {
            V::T(b) => Some(b),
            _ => None,
        }
    }
    pub fn as_str(&self) -> Option<&str> {
        match self {
            V::T(b) => std::str::from_utf8(b).ok(),
            _ => None,
        }
    }
    pub fn as_bool(&self) -> Option<bool> {
        match self {
            V::Bool(b) => Some(*b),
            _ => None,
        }
    }
    pub fn get(&self, key: &V) -> Option<&V> {
        self.as_map()?.iter().find(|(k, _)| k == key).map(|(_, v)| v)
    }
    pub fn get_i(&self, key: i128) -> Option<&V> {
        self.get(&V::int(key))
    }
    pub fn get_t(&self, key: &str) -> Option<&V> {
        self.get(&V::text(key))
    }
    /// short human rendering (diagnostic notation, long strings abbreviated)
    pub fn diag(&self) -> String {
        let mut s = String::new();
        self.diag_into(&mut s);
        s
    }
    fn diag_into(&self, s: &mut String) {
        match self {
            V::U(n) => {
                let _ = write!(s, "{}", n);
            }
            V::N(n) => {
                let _ = write!(s, "{}", -1 - (*n as i128));
            }
            V::B(b) => {
                s.push_str("h'");
                abbreviated_hex(b, s);
                s.push('\'');
            }
            V::T(b) => match std::str::from_utf8(b) {
                Ok(t) if t.len() <= 48 => {
                    let _ = write!(s, "{:?}", t);
                }
                Ok(t) => {
                    let mut cut = 24;
                    while !t.is_char_boundary(cut) {
                        cut -= 1;
                    }
                    let _ = write!(s, "{:?}..({}B)", &t[..cut], t.len());
                }
                Err(_) => {
                    s.push_str("badutf8'");
                    abbreviated_hex(b, s);
                    s.push('\'');
                }
            },
            V::A(a) => {
                s.push('[');
                for (i, x) in a.iter().enumerate() {
                    if i > 0 {
                        s.push_str(", ");
                    }
                    if i >= 12 {
                        let _ = write!(s, "..({} items)", a.len());
                        break;
                    }
                    x.diag_into(s);
                }
                s.push(']');
            }
            V::M(m) => {
                s.push('{');
                for (i, (k, v)) in m.iter().enumerate() {
                    if i > 0 {
                        s.push_str(", ");
                    }
                    if i >= 40 {
                        let _ = write!(s, "..({} entries)", m.len());
                        break;
                    }
                    k.diag_into(s);
                    s.push_str(": ");
                    v.diag_into(s);
                }
                s.push('}');
            }
            V::Tag(t, v) => {
                let _ = write!(s, "{}(", t);
                v.diag_into(s);
                s.push(')');
            }
            V::Bool(b) => {
                let _ = write!(s, "{}", b);
            }
            V::Null => s.push_str("null"),
            V::Undef => s.push_str("undefined"),
            V::Simple(x) => {
                let _ = write!(s, "simple({})", x);
            }
            V::F16(x) => {
                let _ = write!(s, "f16(0x{:04x})", x);
            }
            V::F32(x) => {
                let _ = write!(s, "f32(0x{:08x})", x);
            }
            V::F64(x) => {
                let _ = write!(s, "f64(0x{:016x})", x);
            }
            V::Raw(b) => {
                s.push_str("raw'");
                abbreviated_hex(b, s);
                s.push('\'');
            }
        }
    }
}

fn abbreviated_hex(b: &[u8], s: &mut String) {
    if b.len() <= 40 {
        for x in b {
            let _ = write!(s, "{:02x}", x);
        }
    } else {
        for x in &b[..16] {
            let _ = write!(s, "{:02x}", x);
        }
        let _ = write!(s, "..({}B)", b.len());
    }
}

pub fn hex(b: &[u8]) -> String {
    let mut s = String::with_capacity(b.len() * 2);
    for x in b {
        let _ = write!(s, "{:02x}", x);
    }
    s
}

pub fn unhex(s: &str) -> Vec<u8> {
    let s = s.as_bytes();
    let mut out = Vec::with_capacity(s.len() / 2);
    let val = |c: u8| match c {
        b'0'..=b'9' => c - b'0',
        b'a'..=b'f' => c - b'a' + 10,
        b'A'..=b'F' => c - b'A' + 10,
        _ => 0,
    };
    let mut i = 0;
    while i + 1 < s.len() {
        out.push(val(s[i]) << 4 | val(s[i + 1]));
        i += 2;
    }
    out
}

/// Shortest head for (major, n).
pub fn head(major: u8, n: u64, out: &mut Vec<u8>) {
    let m = major << 5;
    if n < 24 {
        out.push(m | n as u8);
    } else if n <= 0xff {
        out.push(m | 24);
        out.push(n as u8);
    } else if n <= 0xffff {
        out.push(m | 25);
        out.extend_from_slice(&(n as u16).to_be_bytes());
    } else if n <= 0xffff_ffff {
        out.push(m | 26);
        out.extend_from_slice(&(n as u32).to_be_bytes());
    } else {
        out.push(m | 27);
        out.extend_from_slice(&n.to_be_bytes());
    }
}

/// Head with a forced argument width (1, 2, 4 or 8 following bytes); used to inject non-minimal
/// encodings.  `width` = 0 means "in the initial byte" (only valid for n < 24).
pub fn head_width(major: u8, n: u64, width: u8, out: &mut Vec<u8>) {
    let m = major << 5;
    match width {
        0 => out.push(m | (n as u8 & 0x1f)),
        1 => {
            out.push(m | 24);
            out.push(n as u8);
        }
        2 => {
            out.push(m | 25);
            out.extend_from_slice(&(n as u16).to_be_bytes());
        }
        4 => {
            out.push(m | 26);
            out.extend_from_slice(&(n as u32).to_be_bytes());
        }
        _ => {
            out.push(m | 27);
            out.extend_from_slice(&n.to_be_bytes());
        }
    }
}

/// Number of bytes the shortest head for n occupies.
pub fn head_len(n: u64) -> usize {
    if n < 24 {
        1
    } else if n <= 0xff {
        2
    } else if n <= 0xffff {
        3
    } else if n <= 0xffff_ffff {
        5
    } else {
        9
    }
}

/// Encode with shortest heads; maps are emitted in the order given.
pub fn encode_into(v: &V, out: &mut Vec<u8>) {
    match v {
        V::U(n) => head(0, *n, out),
        V::N(n) => head(1, *n, out),
        V::B(b) => {
            head(2, b.len() as u64, out);
            out.extend_from_slice(b);
        }
        V::T(b) => {
            head(3, b.len() as u64, out);
            out.extend_from_slice(b);
        }
        V::A(a) => {
            head(4, a.len() as u64, out);
            for x in a {
                encode_into(x, out);
            }
        }
        V::M(m) => {
            head(5, m.len() as u64, out);
            for (k, x) in m {
                encode_into(k, out);
                encode_into(x, out);
            }
        }
        V::Tag(t, x) => {
            head(6, *t, out);
            encode_into(x, out);
        }
        V::Bool(false) => out.push(0xf4),
        V::Bool(true) => out.push(0xf5),
        V::Null => out.push(0xf6),
        V::Undef => out.push(0xf7),
        V::Simple(x) => {
            if *x < 24 {
                out.push(0xe0 | x);
            } else {
                out.push(0xf8);
                out.push(*x);
            }
        }
        V::F16(x) => {
            out.push(0xf9);
            out.extend_from_slice(&x.to_be_bytes());
        }
        V::F32(x) => {
            out.push(0xfa);
            out.extend_from_slice(&x.to_be_bytes());
        }
        V::F64(x) => {
            out.push(0xfb);
            out.extend_from_slice(&x.to_be_bytes());
        }
        V::Raw(b) => out.extend_from_slice(b),
    }
}

pub fn encode(v: &V) -> Vec<u8> {
    let mut out = Vec::new();
    encode_into(v, &mut out);
    out
}

/// CTAP2 canonical key order: lower major type first, then shorter encoding, then bytewise.
/// For definite shortest-form keys this equals: compare encodings by (major, length, bytes).
pub fn canonical_key_cmp(a: &V, b: &V) -> std::cmp::Ordering {
    let ea = encode(a);
    let eb = encode(b);
    let ma = ea.first().map(|x| x >> 5).unwrap_or(0);
    let mb = eb.first().map(|x| x >> 5).unwrap_or(0);
    ma.cmp(&mb)
        .then(ea.len().cmp(&eb.len()))
        .then_with(|| ea.cmp(&eb))
}

/// Recursively sort every map into canonical key order (stable; duplicates stay adjacent).
pub fn canonicalize(v: &mut V) {
    match v {
        V::A(a) => a.iter_mut().for_each(canonicalize),
        V::M(m) => {
            for (k, x) in m.iter_mut() {
                canonicalize(k);
                canonicalize(x);
            }
            m.sort_by(|a, b| canonical_key_cmp(&a.0, &b.0));
        }
        V::Tag(_, x) => canonicalize(x),
        _ => {}
    }
}

pub fn canonical(mut v: V) -> V {
    canonicalize(&mut v);
    v
}

pub fn encode_canonical(v: &V) -> Vec<u8> {
    encode(&canonical(v.clone()))
}

#[derive(Clone, Debug, PartialEq, Eq)]
pub struct CanonErr {
    pub rule: &'static str,
    pub offset: usize,
}

impl std::fmt::Display for CanonErr {
    fn fmt(&self, f: &mut std::fmt::Formatter<'_>) -> std::fmt::Result {
        write!(f, "{}@{}", self.rule, self.offset)
    }
}

struct P<'a> {
    b: &'a [u8],
    i: usize,
    strict: bool,
    depth: usize,
}

impl<'a> P<'a> {
    fn err<T>(&self, rule: &'static str, offset: usize) -> Result<T, CanonErr> {
        Err(CanonErr { rule, offset })
    }
    fn take(&mut self, n: usize) -> Result<&'a [u8], CanonErr> {
        if self.b.len() - self.i < n {
            return self.err("truncated", self.i);
        }
        let s = &self.b[self.i..self.i + n];
        self.i += n;
        Ok(s)
    }
    /// returns (major, additional-info, argument)
    fn head(&mut self) -> Result<(u8, u8, u64), CanonErr> {
        let at = self.i;
        let ib = self.take(1)?[0];
        let major = ib >> 5;
        let ai = ib & 0x1f;
        let arg = match ai {
            0..=23 => ai as u64,
            24 => self.take(1)?[0] as u64,
            25 => u16::from_be_bytes(self.take(2)?.try_into().unwrap()) as u64,
            26 => u32::from_be_bytes(self.take(4)?.try_into().unwrap()) as u64,
            27 => u64::from_be_bytes(self.take(8)?.try_into().unwrap()),
            28..=30 => return self.err("reserved-additional-info", at),
            _ => {
                if self.strict || major == 0 || major == 1 || major == 6 {
                    return self.err("indefinite-length", at);
                }
                return self.err("indefinite-length-unsupported", at);
            }
        };
        if self.strict && major != 7 {
            let min_ok = match ai {
                24 => arg >= 24,
                25 => arg > 0xff,
                26 => arg > 0xffff,
                27 => arg > 0xffff_ffff,
                _ => true,
            };
            if !min_ok {
                return self.err("non-minimal-head", at);
            }
        }
        Ok((major, ai, arg))
    }
    fn item(&mut self) -> Result<V, CanonErr> {
        self.depth += 1;
        if self.depth > 20_000 {
            return self.err("too-deep", self.i);
        }
        let at = self.i;
        let (major, ai, arg) = self.head()?;
        let v = match major {
            0 => V::U(arg),
            1 => V::N(arg),
            2 => V::B(self.take_len(arg)?.to_vec()),
            3 => {
                let b = self.take_len(arg)?;
                if self.strict && std::str::from_utf8(b).is_err() {
                    return self.err("ill-formed-utf8", at);
                }
                V::T(b.to_vec())
            }
            4 => {
                if arg as usize > self.b.len() - self.i {
                    return self.err("truncated", self.i);
                }
                let mut a = Vec::with_capacity(arg as usize);
                for _ in 0..arg {
                    a.push(self.item()?);
                }
                V::A(a)
            }
            5 => {
                if arg as usize > (self.b.len() - self.i) / 2 + 1 {
                    return self.err("truncated", self.i);
                }
                let mut m: Vec<(V, V)> = Vec::with_capacity(arg as usize);
                let mut prev_key_enc: Option<(usize, usize)> = None;
                for _ in 0..arg {
                    let ks = self.i;
                    let k = self.item()?;
                    let ke = self.i;
                    if self.strict {
                        if let Some((ps, pe)) = prev_key_enc {
                            let pk = &self.b[ps..pe];
                            let ck = &self.b[ks..ke];
                            let ord = (pk[0] >> 5)
                                .cmp(&(ck[0] >> 5))
                                .then(pk.len().cmp(&ck.len()))
                                .then_with(|| pk.cmp(ck));
                            match ord {
                                std::cmp::Ordering::Less => {}
                                std::cmp::Ordering::Equal => {
                                    return self.err("duplicate-key", ks);
                                }
                                std::cmp::Ordering::Greater => {
                                    return self.err("key-order", ks);
                                }
                            }
                        }
                        prev_key_enc = Some((ks, ke));
                    }
                    let x = self.item()?;
                    m.push((k, x));
                }
                V::M(m)
            }
            6 => {
                if self.strict {
                    return self.err("tag", at);
                }
                V::Tag(arg, Box::new(self.item()?))
            }
            _ => match ai {
                20 => V::Bool(false),
                21 => V::Bool(true),
                22 => V::Null,
                23 => {
                    if self.strict {
                        return self.err("undefined", at);
                    }
                    V::Undef
                }
                0..=19 => {
                    if self.strict {
                        return self.err("unassigned-simple", at);
                    }
                    V::Simple(ai)
                }
                24 => {
                    if self.strict {
                        return self.err("unassigned-simple", at);
                    }
                    if arg < 32 {
                        return self.err("invalid-simple", at);
                    }
                    V::Simple(arg as u8)
                }
                25 => {
                    if self.strict {
                        return self.err("float", at);
                    }
                    V::F16(arg as u16)
                }
                26 => {
                    if self.strict {
                        return self.err("float", at);
                    }
                    V::F32(arg as u32)
                }
                _ => {
                    if self.strict {
                        return self.err("float", at);
                    }
                    V::F64(arg)
                }
            },
        };
        self.depth -= 1;
        Ok(v)
    }
    fn take_len(&mut self, n: u64) -> Result<&'a [u8], CanonErr> {
        if n > (self.b.len() - self.i) as u64 {
            return self.err("truncated", self.i);
        }
        self.take(n as usize)
    }
}

/// Accepts only CTAP2 canonical CBOR: exactly one item, nothing trailing.
pub fn parse_canonical(b: &[u8]) -> Result<V, CanonErr> {
    let mut p = P {
        b,
        i: 0,
        strict: true,
        depth: 0,
    };
    let v = p.item()?;
    if p.i != b.len() {
        return Err(CanonErr {
            rule: "trailing-bytes",
            offset: p.i,
        });
    }
    Ok(v)
}

/// Generic definite-length well-formedness parser (tags, floats, simple values allowed, any key
/// order, non-minimal heads allowed).  Returns the value and the number of bytes consumed.
pub fn parse_any(b: &[u8]) -> Result<(V, usize), CanonErr> {
    let mut p = P {
        b,
        i: 0,
        strict: false,
        depth: 0,
    };
    let v = p.item()?;
    Ok((v, p.i))
}

/// Self-checks of the model against RFC 8949 appendix A vectors and injected deviations.
/// Returns the number of assertions checked; panics on failure (a harness defect).
pub fn self_test() -> usize {
    let mut n = 0;
    let vecs: &[(&str, V)] = &[
        ("00", V::U(0)),
        ("01", V::U(1)),
        ("0a", V::U(10)),
        ("17", V::U(23)),
        ("1818", V::U(24)),
        ("1819", V::U(25)),
        ("1864", V::U(100)),
        ("1903e8", V::U(1000)),
        ("1a000f4240", V::U(1000000)),
        ("1b000000e8d4a51000", V::U(1000000000000)),
        ("1bffffffffffffffff", V::U(u64::MAX)),
        ("20", V::int(-1)),
        ("29", V::int(-10)),
        ("3863", V::int(-100)),
        ("3903e7", V::int(-1000)),
        ("3bffffffffffffffff", V::N(u64::MAX)),
        ("f4", V::Bool(false)),
        ("f5", V::Bool(true)),
        ("f6", V::Null),
        ("40", V::B(vec![])),
        ("4401020304", V::B(vec![1, 2, 3, 4])),
        ("60", V::text("")),
        ("6161", V::text("a")),
        ("6449455446", V::text("IETF")),
        ("62225c", V::text("\"\\")),
        ("62c3bc", V::text("\u{fc}")),
        ("63e6b0b4", V::text("\u{6c34}")),
        ("64f0908591", V::text("\u{10151}")),
        ("80", V::A(vec![])),
        ("83010203", V::A(vec![V::U(1), V::U(2), V::U(3)])),
        (
            "8301820203820405",
            V::A(vec![
                V::U(1),
                V::A(vec![V::U(2), V::U(3)]),
                V::A(vec![V::U(4), V::U(5)]),
            ]),
        ),
        (
            "98190102030405060708090a0b0c0d0e0f101112131415161718181819",
            V::A((1..=25).map(V::U).collect()),
        ),
        ("a0", V::M(vec![])),
        (
            "a201020304",
            V::M(vec![(V::U(1), V::U(2)), (V::U(3), V::U(4))]),
        ),
        (
            "a26161016162820203",
            V::M(vec![
                (V::text("a"), V::U(1)),
                (V::text("b"), V::A(vec![V::U(2), V::U(3)])),
            ]),
        ),
    ];
    for (h, v) in vecs {
        let b = unhex(h);
        assert_eq!(&encode(v), &b, "encode {}", h);
        assert_eq!(&parse_canonical(&b).unwrap(), v, "parse {}", h);
        n += 2;
    }
    let loose: &[(&str, V)] = &[
        ("f7", V::Undef),
        ("f0", V::Simple(16)),
        ("f8ff", V::Simple(255)),
        ("f93c00", V::F16(0x3c00)),
        ("fa47c35000", V::F32(0x47c35000)),
        ("fb3ff199999999999a", V::F64(0x3ff199999999999a)),
        ("c074323031332d30332d32315432303a30343a30305a", V::Tag(0, Box::new(V::text("2013-03-21T20:04:00Z")))),
        ("d74401020304", V::Tag(23, Box::new(V::B(vec![1, 2, 3, 4])))),
    ];
    for (h, v) in loose {
        let b = unhex(h);
        assert_eq!(&encode(v), &b);
        assert_eq!(&parse_any(&b).unwrap(), &(v.clone(), b.len()));
        assert!(parse_canonical(&b).is_err(), "strict must reject {}", h);
        n += 3;
    }
    // injected deviations
    let bad: &[(&str, &str)] = &[
        ("1800", "non-minimal-head"),
        ("1817", "non-minimal-head"),
        ("190018", "non-minimal-head"),
        ("1900ff", "non-minimal-head"),
        ("1a0000ffff", "non-minimal-head"),
        ("1b00000000ffffffff", "non-minimal-head"),
        ("5800", "non-minimal-head"),
        ("780161", "non-minimal-head"),
        ("980101", "non-minimal-head"),
        ("b8010102", "non-minimal-head"),
        ("5f4101ff", "indefinite-length"),
        ("9f01ff", "indefinite-length"),
        ("bf0102ff", "indefinite-length"),
        ("7f6161ff", "indefinite-length"),
        ("a201020102", "duplicate-key"),
        ("a203040102", "key-order"),
        ("a2616201616101", "key-order"),
        ("a2626161016162 02", "key-order"),
        ("a2616101 01 02", "key-order"),
        ("a220010002", "key-order"),
        ("0000", "trailing-bytes"),
        ("a10102ff", "trailing-bytes"),
        ("61ff", "ill-formed-utf8"),
        ("62c328", "ill-formed-utf8"),
        ("63eda080", "ill-formed-utf8"),
        ("8201", "truncated"),
        ("4401", "truncated"),
        ("1c", "reserved-additional-info"),
        ("c000", "tag"),
        ("f7", "undefined"),
        ("f93c00", "float"),
    ];
    for (h, rule) in bad {
        let b = unhex(&h.replace(' ', ""));
        let e = parse_canonical(&b).expect_err(h);
        assert_eq!(&e.rule, rule, "{}", h);
        n += 1;
    }
    // canonical ordering: ints by length then value, negative after positive, text after ints
    let m = V::M(vec![
        (V::text("b"), V::U(0)),
        (V::text("aa"), V::U(0)),
        (V::int(-1), V::U(0)),
        (V::U(24), V::U(0)),
        (V::U(3), V::U(0)),
        (V::text("a"), V::U(0)),
        (V::B(vec![0]), V::U(0)),
    ]);
    let c = canonical(m);
    let keys: Vec<String> = c.as_map().unwrap().iter().map(|(k, _)| k.diag()).collect();
    assert_eq!(keys, vec!["3", "24", "-1", "h'00'", "\"a\"", "\"b\"", "\"aa\""]);
    assert!(parse_canonical(&encode(&c)).is_ok());
    n += 2;
    n
}
