//! `vh` — the runtime-monitoring harness for ctap-types.  See /verif/DESIGN.md.
//!
//!   vh run --prop C01 --tier quick --seed 1 --shard 0/16 --out report.json
//!          [--light] [--scale X] [--journal FILE] [--only-case K] [--verbose]
//!   vh distinct f1.hashes f2.hashes ...
//!   vh selftest

use vh::report::{Rep, Tier};
use vh::{cbor, mon, report, util};

fn arg<'a>(args: &'a [String], name: &str) -> Option<&'a str> {
    args.iter().position(|a| a == name).and_then(|i| args.get(i + 1)).map(|s| s.as_str())
}

fn build_name() -> &'static str {
    if cfg!(miri) {
        "miri"
    } else if cfg!(debug_assertions) {
        "dbg"
    } else {
        "rel"
    }
}

fn dispatch(rep: &mut Rep) -> bool {
    match rep.prop.as_str() {
        "C01" => mon::c01::run(rep),
        "C02" => mon::c02::run(rep),
        "C03" => mon::c03::run(rep),
        "C04" => mon::c04::run(rep),
        "C05" => mon::c05::run(rep),
        "C06" => mon::c06::run(rep),
        "C07" => mon::c07::run(rep),
        "C08" => mon::c08::run(rep),
        #[cfg(feature = "dense")]
        "C09" => mon::c09::run(rep),
        "C10" => mon::c10::run(rep),
        "C11" => mon::c11::run(rep),
        "C12" => mon::c12::run(rep),
        "C13" => mon::c13::run(rep),
        "C14" => mon::c14::run(rep),
        "C15" => mon::c15::run(rep),
        "C16" => mon::c16::run(rep),
        #[cfg(feature = "dense")]
        "C17" => mon::c17::run(rep),
        "C18" => mon::c18::run(rep),
        "C19" => mon::c19::run(rep),
        _ => return false,
    }
    true
}

fn main() {
    let args: Vec<String> = std::env::args().collect();
    let cmd = args.get(1).map(|s| s.as_str()).unwrap_or("");
    match cmd {
        "selftest" => {
            let n = cbor::self_test();
            println!("cbor model self-test: {} assertions ok", n);
        }
        "distinct" => {
            println!("{}", report::distinct_files(&args[2..]));
        }
        "judge-bytes" => {
            // judge raw inputs (files) with the arbitrary-input oracle; exit 1 if any violates
            report::install_panic_hook();
            let mut bad = 0;
            let target = arg(&args, "--target").unwrap_or("decode").to_string();
            for f in args[2..].iter().filter(|a| !a.starts_with("--") && **a != target) {
                let bytes = std::fs::read(f).expect("read input");
                let verdicts = match target.as_str() {
                    "encode" => vh::fuzz::judge_encode(&bytes),
                    "roundtrip" => vh::fuzz::judge_roundtrip(&bytes),
                    "apdu" => vh::fuzz::judge_apdu(&bytes),
                    "idents" => vh::fuzz::judge_idents(&bytes),
                    "arb" => vh::fuzz::judge_arb(&bytes),
                    _ => vh::fuzz::judge_bytes(&bytes),
                };
                for (sig, detail) in verdicts {
                    println!("JUDGE {} {} :: {}", f, sig, detail.chars().take(400).collect::<String>());
                    bad += 1;
                }
            }
            std::process::exit(if bad > 0 { 1 } else { 0 });
        }
        "corpus" => {
            // seed corpus + dictionary for the libFuzzer stage
            let dir = args.get(2).expect("dir").clone();
            if let Some(l) = arg(&args, "--literals") {
                vh::schema::load_literals(l);
            }
            let n: u64 = arg(&args, "--n").and_then(|s| s.parse().ok()).unwrap_or(600);
            let seed: u64 = arg(&args, "--seed").and_then(|s| s.parse().ok()).unwrap_or(1);
            std::fs::create_dir_all(&dir).expect("mkdir");
            let mut k = 0;
            for (cmd, _name, s) in vh::schema::commands() {
                for i in 0..n {
                    let mut rng = vh::rng::Rng::derive(seed, "corpus", (cmd as u64) << 32 | i);
                    let mut g = vh::schema::G::new(&mut rng);
                    g.small = i % 4 != 0;
                    if i % 3 == 0 {
                        g.top_mask = Some(u64::MAX);
                        g.nested = vh::schema::Nested::All;
                    }
                    let v = vh::schema::gen_message(&s, &mut g);
                    let mut b = vec![if cmd == 0x0a && i % 5 == 0 { 0x41 } else { cmd }];
                    b.extend_from_slice(&cbor::encode(&v));
                    std::fs::write(format!("{}/seed-{:05}", dir, k), b).expect("write");
                    k += 1;
                }
            }
            let dict = [
                "id", "name", "type", "icon", "url", "displayName", "public-key", "rk", "up", "uv", "alg", "hmac-secret", "credProtect",
                "largeBlobKey", "thirdPartyPayment", "packed", "none", "tpm", "hmac-secret-mc", "credBlob", "minPinLength", "prf",
            ];
            let mut d = String::new();
            for w in dict {
                d.push_str(&format!("\"{}\"\n", w));
            }
            for b in ["\\xa0", "\\xf4", "\\xf5", "\\xf6", "\\x18\\x18", "\\x19\\x01\\x00", "\\x1a\\x00\\x01\\x00\\x00", "\\x58\\x20", "\\x78\\x40", "\\x26", "\\x27", "\\x38\\x18"] {
                d.push_str(&format!("\"{}\"\n", b));
            }
            for w in vh::schema::literals().texts.iter().filter(|w| w.is_ascii() && !w.contains('"') && !w.contains('\\') && w.len() > 1) {
                d.push_str(&format!("\"{}\"\n", w));
            }
            std::fs::write(format!("{}.dict", dir), d).expect("dict");
            println!("{} seeds", k);
        }
        "cfg" => {
            println!("{} {}", util::cfg_name(), build_name());
        }
        "run" => {
            let prop = arg(&args, "--prop").expect("--prop").to_string();
            let tier = match arg(&args, "--tier").unwrap_or("quick") {
                "thorough" => Tier::Thorough,
                _ => Tier::Quick,
            };
            let seed: u64 = arg(&args, "--seed").and_then(|s| s.parse().ok()).unwrap_or(0);
            let (shard, nshards) = arg(&args, "--shard")
                .and_then(|s| {
                    let mut it = s.split('/');
                    Some((it.next()?.parse().ok()?, it.next()?.parse().ok()?))
                })
                .unwrap_or((0u64, 1u64));
            let out = arg(&args, "--out").unwrap_or("-").to_string();
            if let Some(l) = arg(&args, "--literals") {
                vh::schema::load_literals(l);
            }
            let mut rep = Rep::new(&prop, tier, seed, shard, nshards);
            rep.light = args.iter().any(|a| a == "--light");
            rep.verbose = args.iter().any(|a| a == "--verbose");
            if let Some(s) = arg(&args, "--scale") {
                rep.scale = s.parse().unwrap_or(1.0);
            }
            if let Some(k) = arg(&args, "--only-case") {
                rep.only_case = k.parse().ok();
            }
            if let Some(j) = arg(&args, "--journal") {
                rep.set_journal(j);
            }
            report::install_panic_hook();
            let t0 = std::time::Instant::now();
            // big explicit stack: deep-nesting inputs recurse once per level in the decoder, and
            // sanitizer builds inflate frames
            let stack = if cfg!(miri) { 64 << 20 } else { 1usize << 30 };
            let handle = std::thread::Builder::new()
                .stack_size(stack)
                .spawn(move || {
                    let known = dispatch(&mut rep);
                    (rep, known)
                })
                .expect("spawn");
            let (rep, known) = handle.join().expect("monitor thread died");
            if !known {
                eprintln!("unknown property {}", prop);
                std::process::exit(3);
            }
            rep.write(&out, &util::cfg_name(), build_name(), t0.elapsed().as_secs_f64());
            if rep.verbose {
                eprintln!(
                    "{} {} shard {}/{}: {} evaluations, {} violations, {:.2}s",
                    prop,
                    util::cfg_name(),
                    shard,
                    nshards,
                    rep.evaluations,
                    rep.nviol(),
                    t0.elapsed().as_secs_f64()
                );
            }
        }
        _ => {
            eprintln!("usage: vh run|distinct|selftest|cfg ...");
            std::process::exit(3);
        }
    }
}
