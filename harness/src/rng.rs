//! Seeded PRNG (splitmix64) and small helpers.  Every random choice of every monitor comes from
//! here, seeded from VERIF_SEED / --seed, the property id, the workload name and the shard.

#[derive(Clone, Debug)]
pub struct Rng {
    state: u64,
    /// "tape" mode (fuzzer-driven generation): values are read from these bytes instead of the
    /// PRNG, so that a coverage/comparison-guided fuzzer steers the generators; when the tape runs
    /// out the PRNG (seeded from the tape) takes over
    tape: Option<(std::rc::Rc<Vec<u8>>, usize)>,
}

pub fn mix(mut z: u64) -> u64 {
    z = z.wrapping_add(0x9e3779b97f4a7c15);
    z = (z ^ (z >> 30)).wrapping_mul(0xbf58476d1ce4e5b9);
    z = (z ^ (z >> 27)).wrapping_mul(0x94d049bb133111eb);
    z ^ (z >> 31)
}

pub fn hash_bytes(b: &[u8]) -> u64 {
    // FNV-1a 64 followed by a finalizer; good enough for distinct counting
    let mut h: u64 = 0xcbf29ce484222325;
    for x in b {
        h ^= *x as u64;
        h = h.wrapping_mul(0x100000001b3);
    }
    mix(h ^ (b.len() as u64).wrapping_mul(0x9e3779b97f4a7c15))
}

impl Rng {
    pub fn new(seed: u64) -> Rng {
        Rng {
            state: mix(seed ^ 0x5851f42d4c957f2d),
            tape: None,
        }
    }
    pub fn from_tape(bytes: &[u8]) -> Rng {
        Rng {
            state: mix(hash_bytes(bytes)),
            tape: Some((std::rc::Rc::new(bytes.to_vec()), 0)),
        }
    }
    pub fn derive(seed: u64, label: &str, k: u64) -> Rng {
        Rng::new(seed ^ hash_bytes(label.as_bytes()) ^ mix(k))
    }
    pub fn u64(&mut self) -> u64 {
        if let Some((t, pos)) = &mut self.tape {
            if *pos + 8 <= t.len() {
                let v = u64::from_le_bytes(t[*pos..*pos + 8].try_into().unwrap());
                *pos += 8;
                return v;
            }
        }
        self.state = self.state.wrapping_add(0x9e3779b97f4a7c15);
        let mut z = self.state;
        z = (z ^ (z >> 30)).wrapping_mul(0xbf58476d1ce4e5b9);
        z = (z ^ (z >> 27)).wrapping_mul(0x94d049bb133111eb);
        z ^ (z >> 31)
    }
    pub fn below(&mut self, n: u64) -> u64 {
        if n == 0 {
            return 0;
        }
        // tape mode: small choices cost one byte, so that the fuzzer's mutations map to choices
        if n <= 256 {
            if let Some((t, pos)) = &mut self.tape {
                if *pos < t.len() {
                    let v = t[*pos] as u64;
                    *pos += 1;
                    return v % n;
                }
            }
        }
        self.u64() % n
    }
    pub fn usize(&mut self, n: usize) -> usize {
        self.below(n as u64) as usize
    }
    /// inclusive range
    pub fn range(&mut self, lo: u64, hi: u64) -> u64 {
        lo + self.below(hi - lo + 1)
    }
    pub fn bool(&mut self) -> bool {
        self.u64() & 1 == 1
    }
    pub fn chance(&mut self, num: u64, den: u64) -> bool {
        self.below(den) < num
    }
    pub fn bytes(&mut self, n: usize) -> Vec<u8> {
        let mut v = Vec::with_capacity(n);
        while v.len() < n {
            let x = self.u64().to_le_bytes();
            let k = (n - v.len()).min(8);
            v.extend_from_slice(&x[..k]);
        }
        v
    }
    pub fn pick<'a, T>(&mut self, xs: &'a [T]) -> &'a T {
        &xs[self.usize(xs.len())]
    }
    /// random scalar value biased to 1-, 2-, 3-, 4-byte UTF-8 classes and their boundaries
    pub fn char(&mut self) -> char {
        const EDGE: [u32; 24] = [
            0x20, 0x7f, 0x80, 0x7ff, 0x800, 0xd7ff, 0xe000, 0xfffd, 0xffff, 0x10000, 0x10ffff, 0x1f600, 0x200d, 0x200c, 0x200b,
            0xfeff, 0xfe0f, 0x301, 0x202e, 0xa0, 0x0, 0x100000, 0x1f3fb, 0x2028,
        ];
        let c = match self.below(8) {
            0 => *self.pick(&EDGE),
            1 | 2 => self.range(0x20, 0x7e) as u32,
            3 | 4 => self.range(0x80, 0x7ff) as u32,
            5 | 6 => {
                let c = self.range(0x800, 0xffff) as u32;
                if (0xd800..0xe000).contains(&c) {
                    0x4e2d
                } else {
                    c
                }
            }
            _ => self.range(0x10000, 0x10ffff) as u32,
        };
        char::from_u32(c).unwrap_or('?')
    }
    /// random well-formed text of exactly `n` bytes where possible (pads with ASCII)
    pub fn text_bytes(&mut self, n: usize) -> String {
        let mut s = String::with_capacity(n);
        while s.len() < n {
            let c = self.char();
            if s.len() + c.len_utf8() <= n {
                s.push(c);
            } else {
                s.push((b'a' + self.below(26) as u8) as char);
            }
        }
        s
    }
    pub fn ascii(&mut self, n: usize) -> String {
        (0..n).map(|_| (b'a' + self.below(26) as u8) as char).collect()
    }
}
