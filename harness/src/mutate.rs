//! Hostile-input generators: byte-level mutation of encoded messages and structure-level mutation
//! of the model AST guided by the specification tables.

use crate::cbor::{encode, head, head_width, V};
use crate::rng::Rng;
use crate::schema::{self, at_mut, nodes, Step, MAX_MSG, S, UNB};

/// Subsampling selector: mutants are only materialised when `take()` says so (keeps the
/// sanitizer-sampling runs cheap: nothing is built that is not executed).
pub struct Sel {
    pub every: u64,
    pub n: u64,
}

impl Sel {
    pub fn all() -> Sel {
        Sel { every: 1, n: 0 }
    }
    pub fn every(every: u64, phase: u64) -> Sel {
        Sel { every: every.max(1), n: phase }
    }
    pub fn take(&mut self) -> bool {
        self.n += 1;
        self.n % self.every == 0
    }
}

/// Byte-level mutants of `msg` (which includes the command byte): every bit flip, insertion,
/// deletion and duplication at every offset, truncation at every offset.
pub fn byte_mutants(msg: &[u8], rng: &mut Rng, stride: usize, sel: &mut Sel, f: &mut dyn FnMut(&'static str, &[u8])) {
    let n = msg.len();
    let mut buf = Vec::with_capacity(n + 8);
    let stride = stride.max(1);
    let phase = rng.usize(stride);
    // truncate at every offset
    for cut in 0..n {
        if sel.take() {
            f("truncate", &msg[..cut]);
        }
    }
    for i in (phase..n).step_by(stride) {
        for bit in 0..8 {
            if !sel.take() {
                continue;
            }
            buf.clear();
            buf.extend_from_slice(msg);
            buf[i] ^= 1 << bit;
            f("bitflip", &buf);
        }
        // delete
        if sel.take() {
            buf.clear();
            buf.extend_from_slice(&msg[..i]);
            buf.extend_from_slice(&msg[i + 1..]);
            f("delete", &buf);
        }
        // duplicate
        if sel.take() {
            buf.clear();
            buf.extend_from_slice(&msg[..=i]);
            buf.extend_from_slice(&msg[i..]);
            f("duplicate", &buf);
        }
        // insert interesting bytes
        for ins in [0x00u8, 0xff, 0x9f, 0xbf, 0x5f, 0x7f, 0xf6, 0x18, 0x1b, rng.u64() as u8] {
            if !sel.take() {
                continue;
            }
            buf.clear();
            buf.extend_from_slice(&msg[..i]);
            buf.push(ins);
            buf.extend_from_slice(&msg[i..]);
            if buf.len() <= MAX_MSG {
                f("insert", &buf);
            }
        }
        // overwrite with interesting bytes
        for ow in [0x00u8, 0xff, 0x7f, 0x80, 0xa0, 0x1a, 0x3b, 0x5a, 0x7b, 0x9b, 0xbb, 0xdb, 0xfb] {
            if !sel.take() {
                continue;
            }
            buf.clear();
            buf.extend_from_slice(msg);
            buf[i] = ow;
            f("overwrite", &buf);
        }
    }
}

/// Splice two messages at sampled offset pairs.
pub fn splices(a: &[u8], b: &[u8], rng: &mut Rng, count: usize, f: &mut dyn FnMut(&'static str, &[u8])) {
    let mut buf = Vec::new();
    for _ in 0..count {
        let i = rng.usize(a.len() + 1);
        let j = rng.usize(b.len() + 1);
        buf.clear();
        buf.extend_from_slice(&a[..i]);
        buf.extend_from_slice(&b[j..]);
        buf.truncate(MAX_MSG);
        f("splice", &buf);
    }
}

pub fn nest(kind: u8, depth: usize, leaf: &[u8]) -> Vec<u8> {
    // kind: 0 arrays [ [ [ ..] ] ], 1 maps {0:{0:..}}, 2 tags, 3 mixed
    let mut out = Vec::with_capacity(depth * 2 + leaf.len());
    for d in 0..depth {
        let k = if kind == 3 { (d % 3) as u8 } else { kind };
        match k {
            0 => out.push(0x81),
            1 => {
                out.push(0xa1);
                out.push(0x00);
            }
            _ => out.push(0xc1),
        }
    }
    out.extend_from_slice(leaf);
    out
}

/// Raw encodings with huge declared lengths and no content.
pub fn length_bombs() -> Vec<Vec<u8>> {
    let mut out = Vec::new();
    for major in [2u8, 3, 4, 5] {
        for (w, n) in [
            (4u8, 0xffff_ffffu64),
            (4, 0x8000_0000),
            (4, 0x7fff_ffff),
            (4, 0x0001_0000),
            (8, u64::MAX),
            (8, 0x1_0000_0000),
            (8, 0x8000_0000_0000_0000),
            (2, 0xffff),
            (2, 7609),
            (2, 7610),
        ] {
            let mut b = Vec::new();
            head_width(major, n, w, &mut b);
            out.push(b);
        }
        // indefinite
        out.push(vec![major << 5 | 31]);
        out.push(vec![major << 5 | 31, 0xff]);
    }
    // reserved additional info
    for ib in [0x1cu8, 0x1d, 0x1e, 0x3c, 0x5c, 0x7d, 0x9e, 0xbc, 0xdc, 0xfc, 0xfd, 0xfe, 0xff] {
        out.push(vec![ib]);
    }
    out
}

pub fn bad_utf8_samples() -> Vec<Vec<u8>> {
    vec![
        vec![0x80],                   // lone continuation
        vec![0xbf],
        vec![0xc3],                   // truncated 2-byte lead
        vec![0xe2, 0x82],             // truncated 3-byte
        vec![0xf0, 0x9f, 0x98],       // truncated 4-byte
        vec![0xc0, 0xaf],             // overlong
        vec![0xc1, 0xbf],             // overlong
        vec![0xe0, 0x80, 0xaf],       // overlong 3
        vec![0xf0, 0x80, 0x80, 0xaf], // overlong 4
        vec![0xed, 0xa0, 0x80],       // surrogate
        vec![0xed, 0xbf, 0xbf],       // surrogate
        vec![0xf4, 0x90, 0x80, 0x80], // > U+10FFFF
        vec![0xf8, 0x88, 0x80, 0x80, 0x80], // 5-byte form
        vec![0xff],
        vec![0xfe],
        vec![0xc3, 0x28],
    ]
}

fn sized_text(n: usize, rng: &mut Rng) -> V {
    match rng.below(3) {
        0 => V::T(vec![b'a'; n]),
        1 => V::text(&rng.text_bytes(n)),
        _ => {
            // multi-byte characters all the way, so that every cut position is exercised
            let w = 2 + rng.usize(3);
            let ch = match w {
                2 => "\u{e9}",
                3 => "\u{20ac}",
                _ => "\u{1f600}",
            };
            let mut s = String::new();
            let lead = rng.usize(w);
            for _ in 0..lead {
                s.push('x');
            }
            while s.len() + w <= n {
                s.push_str(ch);
            }
            while s.len() < n {
                s.push('y');
            }
            V::text(&s)
        }
    }
}

/// Structure-level mutants of a well-formed body `v` for schema `s`.  `f(kind, member, body)`.
/// Values are built lazily: nothing is materialised for a mutant the selector skips.
pub fn struct_mutants(s: &S, v: &V, rng: &mut Rng, sel: &mut Sel, f: &mut dyn FnMut(&str, &str, &V)) {
    let ns = nodes(s, v);
    let budget = MAX_MSG.saturating_sub(encode(v).len() + 16);
    for node in &ns {
        if node.path.is_empty() {
            continue;
        }
        let mut put = |kind: &str, rng: &mut Rng, mk: &dyn Fn(&mut Rng) -> V| {
            if !sel.take() {
                return;
            }
            let x = mk(rng);
            let mut m = v.clone();
            if let Some(slot) = at_mut(&mut m, &node.path) {
                *slot = x;
                f(kind, &node.name, &m);
            }
        };
        match node.s {
            S::Bytes { max, .. } => {
                let caps: Vec<usize> = if *max == UNB {
                    vec![0, 23, 24, 255, 256, 1000, 4000, 7000]
                } else {
                    vec![0, max.saturating_sub(1), *max, max + 1, 2 * max, 2 * max + 1, 255, 256, 4000]
                };
                for n in caps {
                    put("grow-bytes", rng, &|r| V::B(r.bytes(n)));
                }
            }
            S::Text { max } | S::TextTrunc { max } | S::TextDropIfLonger { max } => {
                let caps: Vec<usize> = if *max == UNB {
                    vec![0, 23, 24, 255, 256, 1000, 4000, 7000]
                } else {
                    vec![0, max.saturating_sub(1), *max, max + 1, max + 2, max + 3, 2 * max, 2 * max + 1, 255, 256, 4000]
                };
                for n in caps {
                    put("grow-text", rng, &|r| sized_text(n, r));
                }
                // ill-formed UTF-8 at sampled positions
                for bad in bad_utf8_samples() {
                    for pos in [0usize, 1, 31, 60, 61, 62, 63, 64, 65, 69] {
                        put("bad-utf8", rng, &|r| {
                            let base = r.ascii(70);
                            let mut b = base.as_bytes()[..pos].to_vec();
                            b.extend_from_slice(&bad);
                            b.extend_from_slice(&base.as_bytes()[pos..]);
                            V::T(b)
                        });
                    }
                }
            }
            S::TextDiscard => {
                for n in [0usize, 1, 128, 129, 255, 256, 1000, 7000] {
                    put("grow-text", rng, &|r| sized_text(n, r));
                }
                for bad in bad_utf8_samples() {
                    put("bad-utf8", rng, &|_| V::T(bad.clone()));
                }
            }
            S::UInt { .. } | S::UEnum(_) => {
                let max = if let S::UInt { max } = node.s { *max } else { 255 };
                for n in [0u64, 23, 24, 255, 256, 65535, 65536, 0xffff_ffff, 0x1_0000_0000, u64::MAX, max, max.wrapping_add(1)] {
                    put("int-range", rng, &|_| V::U(n));
                    put("int-range", rng, &|_| V::N(n));
                }
            }
            S::Int { .. } => {
                for n in [0u64, 23, 24, 255, 256, 65535, 65536, 0x7fff_ffff, 0x8000_0000, 0xffff_ffff, 0x1_0000_0000, 0x7fff_ffff_ffff_ffff, u64::MAX] {
                    put("int-range", rng, &|_| V::U(n));
                    put("int-range", rng, &|_| V::N(n));
                }
            }
            S::Array { .. } | S::Params | S::Formats => {
                let max = if let S::Array { max, .. } = node.s { *max } else { 2 };
                for n in [0usize, 1, max.saturating_sub(1), max, max + 1, 2 * max + 1, 23, 24, 25, 64, 255, 256, 300] {
                    put("grow-array", rng, &|_| {
                        let cur = crate::schema::at(v, &node.path).and_then(|x| x.as_arr()).cloned().unwrap_or_default();
                        let proto = cur.first().cloned().unwrap_or(V::M(vec![]));
                        let mut a: Vec<V> = cur.iter().cloned().take(n).collect();
                        while a.len() < n {
                            a.push(shrink(&proto));
                        }
                        V::A(a)
                    });
                }
            }
            S::Map(ms) => {
                // many unknown members (only meaningful where the map is extensible, but the
                // closed maps must reject gracefully too)
                for n in [1usize, 23, 24, 255, 256] {
                    put("grow-map", rng, &|_| {
                        let mut m = crate::schema::at(v, &node.path).and_then(|x| x.as_map()).cloned().unwrap_or_default();
                        for i in 0..n {
                            let key = if ms.members.first().map(|x| matches!(x.key, V::T(_))).unwrap_or(true) {
                                V::text(&format!("zz{}", i))
                            } else {
                                V::U(1000 + i as u64)
                            };
                            m.push((key, V::U(i as u64)));
                        }
                        V::M(m)
                    });
                }
            }
            _ => {}
        }
        // generic: nesting bombs and length bombs in place of any member
        if rng.chance(1, 3) {
            for kind in 0..4u8 {
                let per = if kind == 1 { 2 } else { 1 };
                for depth in [16usize, 64, 1000, budget / per] {
                    if depth * per + 1 <= budget {
                        put("nest-bomb", rng, &|_| V::Raw(nest(kind, depth, &[0x00])));
                        put("nest-bomb-unterminated", rng, &|_| V::Raw(nest(kind, depth, &[])));
                    }
                }
            }
            for lb in length_bombs() {
                put("length-bomb", rng, &|_| V::Raw(lb.clone()));
            }
        }
    }
    // nesting bombs inside an unknown member of every extensible map (this is the path that
    // reaches the generic skipper)
    for node in &ns {
        if let S::Map(ms) = node.s {
            if !ms.extensible {
                continue;
            }
            for kind in 0..4u8 {
                let per = if kind == 1 { 2 } else { 1 };
                for depth in [1usize, 16, 255, 256, 2000, budget / per] {
                    if depth * per + 1 > budget {
                        continue;
                    }
                    for leaf in [&[0x00u8][..], &[], &[0xf6], &[0x1b, 0xff, 0xff, 0xff, 0xff, 0xff, 0xff, 0xff, 0xff]] {
                        if !sel.take() {
                            continue;
                        }
                        let mut m = v.clone();
                        if let Some(V::M(entries)) = at_mut(&mut m, &node.path) {
                            let pos = rng.usize(entries.len() + 1);
                            entries.insert(pos, (V::text("zzUnknown"), V::Raw(nest(kind, depth, leaf))));
                            f("nest-bomb-in-unknown", &node.name, &m);
                        }
                    }
                }
            }
            for lb in length_bombs() {
                if !sel.take() {
                    continue;
                }
                let mut m = v.clone();
                if let Some(V::M(entries)) = at_mut(&mut m, &node.path) {
                    entries.push((V::text("zzUnknown"), V::Raw(lb)));
                    f("length-bomb-in-unknown", &node.name, &m);
                }
            }
        }
    }
}

/// A small version of a value (used to fill grown arrays without blowing the size budget).
pub fn shrink(v: &V) -> V {
    match v {
        V::B(b) => V::B(b.iter().cloned().take(4).collect()),
        V::T(b) => match std::str::from_utf8(b) {
            Ok(s) if s == "public-key" || s == "packed" || s == "none" => v.clone(),
            _ => V::T(b"pk".to_vec()),
        },
        V::M(m) => V::M(m.iter().map(|(k, x)| (k.clone(), shrink(x))).collect()),
        V::A(a) => V::A(a.iter().take(2).map(shrink).collect()),
        x => x.clone(),
    }
}

/// Non-minimal re-encodings of a head: returns raw bytes for every wider width.
pub fn nonminimal_heads(major: u8, n: u64) -> Vec<Vec<u8>> {
    let mut out = Vec::new();
    let min_w = match crate::cbor::head_len(n) {
        1 => 0u8,
        2 => 1,
        3 => 2,
        5 => 4,
        _ => 8,
    };
    for w in [1u8, 2, 4, 8] {
        if w > min_w {
            let mut b = Vec::new();
            head_width(major, n, w, &mut b);
            out.push(b);
        }
    }
    out
}

/// Encode `v` but with the head of the node at `path` re-encoded non-minimally (width w) or
/// indefinite (w = 255).  Returns None where not applicable.
pub fn encode_with_head(v: &V, path: &[Step], w: u8) -> Option<Vec<u8>> {
    fn enc(v: &V, path: Option<&[Step]>, w: u8, out: &mut Vec<u8>) -> bool {
        let here = matches!(path, Some(p) if p.is_empty());
        let sub = |i: usize, st: &dyn Fn(usize) -> Step| -> Option<&[Step]> {
            match path {
                Some(p) if !p.is_empty() && p[0] == st(i) => Some(&p[1..]),
                _ => None,
            }
        };
        let mut hit = false;
        let hd = |major: u8, n: u64, out: &mut Vec<u8>| -> bool {
            if here {
                if w == 255 {
                    out.push(major << 5 | 31);
                } else if (28..=31).contains(&w) {
                    // reserved additional-information values (and 31 on a major type that has no
                    // indefinite form): malformed CBOR
                    out.push(major << 5 | w);
                } else {
                    head_width(major, n, w, out);
                }
                true
            } else {
                head(major, n, out);
                false
            }
        };
        match v {
            V::U(n) => {
                if here && w == 255 {
                    return false;
                }
                hit |= hd(0, *n, out);
            }
            V::N(n) => {
                if here && w == 255 {
                    return false;
                }
                hit |= hd(1, *n, out);
            }
            V::B(b) => {
                if here && w == 255 {
                    // indefinite byte string: one definite chunk + break
                    out.push(0x5f);
                    head(2, b.len() as u64, out);
                    out.extend_from_slice(b);
                    out.push(0xff);
                    return true;
                }
                hit |= hd(2, b.len() as u64, out);
                out.extend_from_slice(b);
            }
            V::T(b) => {
                if here && w == 255 {
                    out.push(0x7f);
                    head(3, b.len() as u64, out);
                    out.extend_from_slice(b);
                    out.push(0xff);
                    return true;
                }
                hit |= hd(3, b.len() as u64, out);
                out.extend_from_slice(b);
            }
            V::A(a) => {
                hit |= hd(4, a.len() as u64, out);
                for (i, x) in a.iter().enumerate() {
                    hit |= enc(x, sub(i, &|i| Step::Elem(i)), w, out);
                }
                if here && w == 255 {
                    out.push(0xff);
                }
            }
            V::M(m) => {
                hit |= hd(5, m.len() as u64, out);
                for (i, (k, x)) in m.iter().enumerate() {
                    hit |= enc(k, sub(i, &|i| Step::MapKey(i)), w, out);
                    hit |= enc(x, sub(i, &|i| Step::MapVal(i)), w, out);
                }
                if here && w == 255 {
                    out.push(0xff);
                }
            }
            other => {
                if here {
                    return false;
                }
                crate::cbor::encode_into(other, out);
            }
        }
        hit
    }
    let mut out = Vec::new();
    if enc(v, Some(path), w, &mut out) {
        Some(out)
    } else {
        None
    }
}

/// One value of every CBOR data type class, for wrong-type substitution.
pub fn type_samples() -> Vec<(&'static str, V)> {
    vec![
        ("unsigned", V::U(7)),
        ("negative", V::N(6)),
        ("bytes", V::B(vec![0xde, 0xad])),
        ("text", V::text("zz")),
        ("array", V::A(vec![V::text("zz")])),
        ("map", V::M(vec![(V::text("zz"), V::text("yy"))])),
        ("bool", V::Bool(true)),
        // second sample of each class: the empty / smallest value
        ("unsigned", V::U(0)),
        ("negative", V::N(0)),
        ("bytes", V::B(vec![])),
        ("text", V::text("")),
        ("array", V::A(vec![V::U(1), V::U(2), V::U(3)])),
        ("array", V::A(vec![])),
        ("map", V::M(vec![(V::U(1), V::U(2))])),
        ("map", V::M(vec![])),
        ("bool", V::Bool(false)),
    ]
}

#[allow(dead_code)]
pub fn _unused(_: &schema::MapS) {}

/// Names that differ from `s` but collide with it under the string hashes commonly hand-written
/// for dispatch tables: any commutative fold (sum / xor of the bytes — anagrams), polynomial hashes
/// `h = h * B + c` for B = 31, 33, 37 (one adjacent pair shifted by (+k, −k·B): equal over the
/// integers, hence for every word size and seed), "length + first/last byte", and a common prefix
/// of 4 / 8 bytes.  All results are printable ASCII and different from `s`.
pub fn hash_lookalikes(s: &str) -> Vec<String> {
    let b = s.as_bytes();
    let mut out: Vec<String> = Vec::new();
    let ok = |c: i32| (0x21..=0x7e).contains(&c);
    if !b.is_ascii() || b.is_empty() {
        return out;
    }
    // anagrams: swap two different bytes (first such pair, last such pair), and the reversal
    'a: for i in 0..b.len() {
        for j in (i + 1)..b.len() {
            if b[i] != b[j] {
                let mut x = b.to_vec();
                x.swap(i, j);
                out.push(String::from_utf8(x).unwrap());
                break 'a;
            }
        }
    }
    'b: for i in (0..b.len()).rev() {
        for j in (0..i).rev() {
            if b[i] != b[j] {
                let mut x = b.to_vec();
                x.swap(i, j);
                out.push(String::from_utf8(x).unwrap());
                break 'b;
            }
        }
    }
    let mut r = b.to_vec();
    r.reverse();
    out.push(String::from_utf8(r).unwrap());
    // polynomial hashes
    for base in [31i32, 33, 37] {
        for i in 0..b.len().saturating_sub(1) {
            for k in [1i32, -1, 2, -2] {
                let (a, c) = (b[i] as i32 + k, b[i + 1] as i32 - k * base);
                if ok(a) && ok(c) {
                    let mut x = b.to_vec();
                    x[i] = a as u8;
                    x[i + 1] = c as u8;
                    out.push(String::from_utf8(x).unwrap());
                }
            }
        }
    }
    // same length, same first and last byte, different middle; same first 4 / 8 bytes
    if b.len() >= 3 {
        let mut x = b.to_vec();
        for m in x[1..b.len() - 1].iter_mut() {
            *m = if *m == b'x' { b'y' } else { b'x' };
        }
        out.push(String::from_utf8(x).unwrap());
    }
    for p in [4usize, 8] {
        if b.len() > p {
            let mut x = b[..p].to_vec();
            x.extend_from_slice(b"Zq");
            out.push(String::from_utf8(x).unwrap());
            let mut y = b.to_vec();
            for m in y[p..].iter_mut() {
                *m = if *m == b'x' { b'y' } else { b'x' };
            }
            out.push(String::from_utf8(y).unwrap());
        }
    }
    out.retain(|x| x != s);
    out.sort();
    out.dedup();
    out
}
