#!/bin/sh
# dev helper: build one dbg config quietly, print only harness errors/warnings
cfg=${1:-f000}
feat=""
case $cfg in f1??*) feat="$feat,gif";; esac
case $cfg in f?1?*) feat="$feat,lb";; esac
case $cfg in f??1*) feat="$feat,tpp";; esac
case $cfg in *sa) feat="$feat,arb";; esac
cd /verif/harness && CARGO_NET_OFFLINE=true cargo build --target-dir /verif/target/dbg-$cfg --features "$feat" 2>&1 | grep -v '^\s*$' | awk '/Compiling vh/{p=1} p' | grep -E '^(error|warning)' -A12 | head -${2:-60}
