//! Generates the const-generic dispatchers: `Response::serialize::<N>` (C17) and
//! `ctap1::Response::serialize::<S>` (C09) are generic over the buffer capacity, so every capacity
//! the monitors want to observe has to be instantiated at compile time.
use std::fmt::Write;

fn main() {
    let out = std::env::var("OUT_DIR").unwrap();
    // ---- C17: dense 1..=800, windows around the larger sizes
    let mut ns: Vec<usize> = (1..=800).collect();
    for anchor in [1024usize, 1280, 1536, 2048, 2560, 3012, 3072, 4096, 7609] {
        for d in 0..7 {
            ns.push(anchor - 3 + d);
        }
    }
    // buffers larger than any message: 16-bit and page-size arithmetic on the capacity
    ns.extend([8192usize, 16384, 32768, 65535, 65536, 65537, 70000, 131072]);
    ns.sort();
    ns.dedup();
    let mut s = String::new();
    writeln!(s, "pub const CAPS: &[usize] = &{:?};", ns).unwrap();
    writeln!(s, "pub fn serialize_n(resp: &ctap_types::ctap2::Response, n: usize, prefill: usize, sentinel: u8) -> Option<Vec<u8>> {{ match n {{").unwrap();
    for n in &ns {
        writeln!(s, "{} => Some(go::<{}>(resp, prefill, sentinel)),", n, n).unwrap();
    }
    writeln!(s, "_ => None }} }}").unwrap();
    writeln!(s, "pub fn history_n(resps: &[ctap_types::ctap2::Response], n: usize) -> Option<Vec<Vec<u8>>> {{ match n {{").unwrap();
    for n in ns.iter().filter(|n| **n % 7 == 1 || **n < 64 || **n > 800) {
        writeln!(s, "{} => Some(history::<{}>(resps)),", n, n).unwrap();
    }
    writeln!(s, "_ => None }} }}").unwrap();
    std::fs::write(format!("{}/c17_dispatch.rs", out), s).unwrap();

    // ---- C09: dense 0..=160 and the large transport buffers
    let mut ss: Vec<usize> = (0..=160).collect();
    ss.extend([255usize, 256, 257, 1024, 1500, 2048, 4096, 65535, 65536, 65537, 70000, 131072]);
    let mut s = String::new();
    writeln!(s, "pub const CAPS: &[usize] = &{:?};", ss).unwrap();
    writeln!(s, "pub fn serialize_s(resp: &ctap_types::ctap1::Response, cap: usize, prefix: &[u8]) -> Option<(bool, Vec<u8>)> {{ match cap {{").unwrap();
    for n in &ss {
        writeln!(s, "{} => Some(go::<{}>(resp, prefix)),", n, n).unwrap();
    }
    writeln!(s, "_ => None }} }}").unwrap();
    std::fs::write(format!("{}/c09_dispatch.rs", out), s).unwrap();
    println!("cargo:rerun-if-changed=build.rs");
}
